"""debug helper: python tools/show.py <seed> [profile] -- prints scenario, events, violations"""
import sys, json
sys.path.insert(0, '/verif')
from sim.runner import run_spec
from sim.gen import gen_scenario
from sim.oracles import evaluate
from sim import spec as S


def show_spec(node, depth=0):
    ind = '  ' * depth
    if S.is_sched(node):
        print("{}{} {} crit={} forever={} win={} T={} sdT={} verbose={} build={} edges={}".format(
            ind, node['id'], node['cls'], node['critical'], node['forever'], node['window'],
            node['timeout'], node['sd_timeout'], node['verbose'], node['build'], node['edges']))
        for m in node['members']:
            show_spec(m, depth + 1)
    else:
        print("{}{} {} crit={} forever={} script={} -> {} cleanup={} handler={}".format(
            ind, node['id'], node['cls'], node['critical'], node['forever'], node['script'],
            node['outcome'], node['cleanup'], node['handler']))


def main():
    seed = int(sys.argv[1])
    top, knobs, feat = gen_scenario(seed)
    show_spec(top)
    print(knobs)
    r = run_spec(top, knobs)
    print("outcome", r.outcome, r.value, "t", r.t_begin, r.t_end)
    for e in r.events:
        print("  ", e)
    print("post_sched", r.post_sched)
    print("loop_errors", r.ctx.loop_errors)
    res, h = evaluate(r)
    for p, vs in res.items():
        for v in vs:
            print(v)


if __name__ == '__main__':
    main()
