import json,sys
sys.path.insert(0,'/verif')
from sim.driver import compact
d=json.load(open(sys.argv[1]))
print(d['property'], d['clause'], d['site']); print(d['msg'])
print(json.dumps(compact(d['case']['spec']),indent=1))
print(d['case']['knobs'], d['case']['choices'], d['case']['aux'])
for e in d['events']: print('   ',e)
