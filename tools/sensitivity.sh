#!/bin/bash
# re-run the seeded changes kept under /verif/seeded against the checks
#   tools/sensitivity.sh [--with-tests] [name ...]      (default: all, own-property check only)
cd "$(dirname "$0")/.."
flag="--no-tests"; [ "$1" = "--with-tests" ] && { flag=""; shift; }
names="$@"; [ -z "$names" ] && names=$(ls seeded)
export VERIF_QUICK_SCALE=${VERIF_QUICK_SCALE:-0.4}
for name in $names; do
  own=${name%%-*}
  tmp=$(mktemp -d); cp seeded/$name/patch.diff seeded/$name/demo.py seeded/$name/meta.json $tmp/
  out=$(tools/mutant.py $tmp $name $own $flag --no-save 2>&1); rm -rf $tmp
  echo "$name $(echo "$out" | grep -A3 '"caught_by"' | tr -d '\n ' | cut -c1-80)"
done
