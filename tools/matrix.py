#!/venv/bin/python -B
"""prints the seeded-change x check matrix from seeded/*/meta.json (markdown)"""
import glob
import json
import os

ROOT = os.path.dirname(os.path.dirname(os.path.abspath(__file__)))


def main():
    rows = []
    for path in sorted(glob.glob(os.path.join(ROOT, 'seeded', '*', 'meta.json'))):
        meta = json.load(open(path))
        conf = meta.get('confirmation', {})
        name = conf.get('name', os.path.basename(os.path.dirname(path)))
        own = name.split('-')[0]
        caught = conf.get('caught_by', [])
        rows.append((name, own in caught, caught,
                     (meta.get('breaks') or '')[:150].replace('|', '/'),
                     (meta.get('needs') or '')[:170].replace('|', '/'),
                     conf.get('tests_with_patch')))
    print("| seeded change | own check | all checks that report it | what it breaks | needs |")
    print("|---|---|---|---|---|")
    for name, own, caught, breaks, needs, tests in rows:
        print("| {} | {} | {} | {} | {} |".format(
            name, 'caught' if own else '**missed**', ' '.join(caught), breaks, needs))
    print()
    print("{} seeded changes, {} caught by the check of the property they were written against, {} caught by at least one check".format(
        len(rows), sum(1 for r in rows if r[1]), sum(1 for r in rows if r[2])))


if __name__ == '__main__':
    main()
