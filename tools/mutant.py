#!/venv/bin/python -B
"""
Confirm a seeded change and run the checks against it.

  tools/mutant.py <dir with patch.diff, demo.py, meta.json> <name> <PROP> [more props...]
        [--no-tests] [--keep]

1. fresh git worktree of /repo's HEAD under /tmp/mw-<name>; demo.py must PASS
2. patch applied (git apply, falling back to --3way); demo.py must FAIL
3. the repository's test-suite must still pass with the patch
4. each named check's quick tier is run with VERIF_REPO=<worktree>; exit codes
   and VIOLATION lines are recorded
5. the worktree is removed; result written to /verif/seeded/<name>/
"""
import json
import os
import shutil
import subprocess
import sys

ROOT = os.path.dirname(os.path.dirname(os.path.abspath(__file__)))
PY = '/venv/bin/python'


def sh(cmd, cwd=None, env=None, timeout=1800):
    proc = subprocess.run(cmd, shell=True, cwd=cwd, env=env,
                          capture_output=True, text=True, timeout=timeout)
    return proc.returncode, proc.stdout + proc.stderr


def main():
    args = [a for a in sys.argv[1:] if not a.startswith('--')]
    flags = [a for a in sys.argv[1:] if a.startswith('--')]
    src, name, props = args[0], args[1], args[2:]
    wt = '/tmp/mw-' + name
    sh('git -C /repo worktree remove --force ' + wt)
    code, out = sh('git -C /repo worktree add --detach {} HEAD'.format(wt))
    assert code == 0, out
    result = {"name": name, "source": src, "properties_checked": props}
    try:
        shutil.copy(os.path.join(src, 'demo.py'), os.path.join(wt, 'demo_seeded.py'))
        demo = "cd {} && timeout 300 {} demo_seeded.py".format(wt, PY)
        # demo.py inserts '.' in sys.path: run from the worktree root
        code, out = sh(demo)
        result["demo_clean"] = {"exit": code, "tail": out[-300:]}
        code, out = sh('git -C {} apply {}'.format(wt, os.path.join(os.path.abspath(src), 'patch.diff')))
        if code != 0:
            code, out = sh('git -C {} apply --3way {}'.format(wt, os.path.join(os.path.abspath(src), 'patch.diff')))
        result["patch_applies"] = code == 0
        if code != 0:
            result["patch_error"] = out[-500:]
            print(json.dumps(result, indent=1))
            return 1
        code, out = sh(demo)
        result["demo_mutated"] = {"exit": code, "tail": out[-300:]}
        if '--no-tests' not in flags:
            code, out = sh("cd {} && timeout 1200 {} -m pytest -q -p no:cacheprovider --timeout=900 "
                           "--deselect tests/test_nesting.py::Tests::test_nesting1 tests 2>&1 | tail -3".format(wt, PY))
            result["tests_with_patch"] = out.strip().splitlines()[-1] if out.strip() else ''
        env = dict(os.environ)
        env['VERIF_REPO'] = wt
        checks = {}
        for prop in props:
            code, out = sh("./check {} --tier quick".format(prop), cwd=ROOT, env=env)
            viol = [l for l in out.splitlines() if l.startswith(('VIOLATION', 'violation', 'HARNESS'))]
            checks[prop] = {"exit": code, "lines": [l[:300] for l in viol[:6]]}
        result["checks"] = checks
        result["caught_by"] = [p for p, c in checks.items() if c["exit"] == 1]
        # keep the minimised scenario that caught the change (own property
        # first) in the regression corpus replayed by every later check
        own = name.split('-')[0]
        os.makedirs(os.path.join(ROOT, 'corpus'), exist_ok=True)
        kept = 2 if '--no-save' in flags else 0
        for prop in [own] + [p for p in result["caught_by"] if p != own]:
            if kept >= 2 or prop not in checks or checks[prop]["exit"] != 1:
                continue
            for line in checks[prop]["lines"]:
                if line.startswith('VIOLATION') and 'replay=' in line:
                    path = line.split('replay=')[1].strip()
                    if os.path.exists(path):
                        shutil.copy(path, os.path.join(
                            ROOT, 'corpus', '{}-{}.json'.format(name, prop)))
                        kept += 1
                    break
    finally:
        if '--keep' not in flags:
            sh('git -C /repo worktree remove --force ' + wt)
    if '--no-save' in flags:
        print(json.dumps(result, indent=1))
        return 0
    dest = os.path.join(ROOT, 'seeded', name)
    os.makedirs(dest, exist_ok=True)
    for fn in ('patch.diff', 'demo.py'):
        shutil.copy(os.path.join(src, fn), os.path.join(dest, fn))
    meta = {}
    try:
        meta = json.load(open(os.path.join(src, 'meta.json')))
    except Exception:
        pass
    meta["confirmation"] = result
    with open(os.path.join(dest, 'meta.json'), 'w') as out:
        json.dump(meta, out, indent=1)
    print(json.dumps(result, indent=1))
    return 0


if __name__ == '__main__':
    sys.exit(main())
