#!/venv/bin/python -B
"""
Which lines of the library do the simulated runs execute? (reach measure, not a
check) usage: tools/libcoverage.py [seeds-per-property]
"""
import os
import sys
import io

sys.path.insert(0, os.path.dirname(os.path.dirname(os.path.abspath(__file__))))
os.environ.setdefault('PYTHONHASHSEED', '0')
import coverage                                         # noqa: E402

repo = os.environ.get('VERIF_REPO', '/repo')
cov = coverage.Coverage(include=[repo + '/asynciojobs/*'], data_file=None,
                        branch=True)
cov.start()
from sim import lib                                     # noqa: E402,F401
from sim import cases, hcases                           # noqa: E402
from sim.driver import seed_base                        # noqa: E402

n = int(sys.argv[1]) if len(sys.argv) > 1 else 1500
for prop in cases.RUNTIME_PROPS + hcases.HISTORY_PROPS:
    eng = hcases if prop in hcases.HISTORY_PROPS else cases
    base = seed_base(prop, 'quick', 0)
    for seed in range(base, base + n):
        for case in eng.gen_cases(prop, seed):
            eng.evaluate_case(prop, case)
cov.stop()
out = io.StringIO()
cov.report(file=out, show_missing=True)
print(out.getvalue())
