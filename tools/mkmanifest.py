"""regenerates /verif/MANIFEST.json (run from /verif: python3 tools/mkmanifest.py)"""
import json
import os

ROOT = os.path.dirname(os.path.dirname(os.path.abspath(__file__)))

A = "A-runtime-sim"
B = "B-history-sim"

CHECKS = {
    'C01': (A, "exploration", "5.C01",
            "virtual-time simulation, seeded schedule + event-order oracle",
            "Seeded search over scheduler trees, schedules (same-instant timer order, stalls, set iteration order) and faults; every body entry in the recorded history must follow the finish of each requirement and the begin of every enclosing run. Sampling gives evidence, not proof; that is the right level for a property quantified over all schedules of real asyncio code."),
    'C02': (A, "exploration", "5.C02",
            "virtual-time simulation + per-job entry counter / verdict-vs-history oracle",
            "Seeded search biased to simultaneous completions, forever jobs that end and windowed queues; no job body is entered twice, and a success verdict at any level implies every non-forever job ran to its end."),
    'C03': (A, "exploration", "5.C03",
            "virtual-time simulation with deadlock/livelock detection (bounded liveness)",
            "The simulated loop detects 'idle with no timer armed' as a deadlock within microseconds and bounds virtual time by a sound horizon; every admissible tree must return, under any subset of raising jobs, any window >= 1 and any timeout."),
    'C04': (A, "exploration", "5.C04",
            "virtual-time simulation + verdict-justified-by-history oracle",
            "The verdict chosen by the implementation, the exception object that comes out of a critical scheduler, failed_time_out()/failed_critical()/why() are checked against the recorded history at every nesting level, ties resolved in favour of the implementation."),
    'C05': (A, "exploration", "5.C05",
            "virtual-time simulation + abort-instant oracle (no start / cancel / end instant)",
            "For every run that ended on a critical failure: nothing starts after the failure instant, everything active or queued sees its cancellation in that instant, the run ends exactly when cancellations and the shutdown phase are complete, finished jobs keep their results."),
    'C06': (A, "exploration", "5.C06",
            "metamorphic twin simulation (return <-> raise)",
            "Twin runs from one seed differing only in one non-critical job's outcome must give identical timed histories, results and verdicts for every other job (reduced, time-independent comparison when window contention makes slot assignment a scheduling choice)."),
    'C07': (A, "exploration", "5.C07",
            "virtual-time simulation + running-body counter per scheduler run",
            "Concurrency of direct jobs is counted at every body entry for every scheduler run, including raising, cancelled and nested jobs and aborts while jobs are queued."),
    'C08': (A, "exploration", "5.C08",
            "virtual-time simulation, timeout sweep over the run's timeline + twin without timeout",
            "Expiry instant measured from the scheduler's own begin; cancellation of everything at that instant; end instant; timeout verdict. T is swept over every grid and half-grid instant of sampled trees; a timeout that expires after all jobs finished must have no effect (twin run without it)."),
    'C09': (A, "exploration", "5.C09",
            "virtual-time simulation + last-completion-instant oracle",
            "At the instant the last non-forever job finishes, active forever jobs see their cancellation, nothing else starts, and the run ends after cancellations + shutdown; forever jobs that end release their successors (via the C01/C12 oracles)."),
    'C10': (A, "exploration", "5.C10",
            "virtual-time simulation + exception-identity chain + nested/flattened twin",
            "Containment by non-critical nested schedulers, propagation of the same exception object through critical ones, and equality of per-job timelines between a nested tree and its flattened graph."),
    'C11': (A, "fault_enumeration", "5.C11",
            "virtual-time simulation, enclosing-end swept over every instant of the nested run (crash points)",
            "For sampled trees the enclosing scheduler is made to end (timeout / critical sibling / last regular sibling) at every grid and half-grid instant of the nested run's timeline, so the cancellation lands in each phase (main loop, tidying, shutdown, not started); afterwards no job activity, no pending task, no pending handler."),
    'C12': (A, "exploration", "5.C12",
            "virtual-time simulation + eager-start / work-conservation oracle at quiescent points",
            "Unwindowed: a job starts in the very instant its last requirement finishes. Windowed: at every quiescent point of the loop before the run closes, a free slot and an eligible waiting job never coexist."),
    'C13': (A, "fault_enumeration", "5.C13",
            "virtual-time simulation, shutdown-event oracle, handler durations vs every shutdown_timeout, swept exits",
            "co_shutdown events: exactly once per job by the end of its scheduler's run on all three exit paths at every level, never while a sibling runs, phase length = min(shutdown_timeout, longest handler), stragglers cancelled, truthful return value, nothing more on explicit shutdown."),
    'C14': (A, "exploration", "5.C14",
            "virtual-time simulation, predicates polled at every quiescent point vs history",
            "is_idle/is_scheduled/is_running/is_done/result()/raised_exception() polled at every quiescent point of the loop and after the run, for AbstractJob subclasses, coroutine Jobs and nested schedulers, compared with the recorded history; monotonicity across polls."),
    'C15': (B, "exploration", "6.3",
            "seeded API-call histories vs reference graph model, seeded set iteration order",
            "Seeded histories of construction/edit calls on scheduler trees are replayed against a small executable reference model; after every step check_cycles(), topological_order() and the ids printed by list() are compared with the model for every scheduler of the tree."),
    'C16': (B, "exploration", "6.3",
            "seeded API-call histories vs reference graph model",
            "After sanitize() (and an immediate second call) every requirement set and the return value are compared with the model's prediction for the whole tree."),
    'C17': (B, "exploration", "6.3",
            "seeded API-call histories vs reference graph model (closures, entry/exit, traversal)",
            "predecessors/successors/upstream/downstream for single and multiple start jobs, entry_jobs/exit_jobs with both discard_forever values and iterate_jobs with both scan_schedulers values are compared with the model after every edit of the history."),
    'C18': (B, "exploration", "6.3",
            "seeded API-call histories vs reference graph model (closure before/after surgery)",
            "bypass_and_remove / keep_only / keep_only_between applied one after another; member sets, requirement sets and the transitive must-run-before relation among the remaining jobs are compared with the model."),
    'C19': (B, "exploration", "6.3",
            "seeded construction programs interpreted by the library and by a reference model of the documented semantics",
            "Sequence/requires/append/add/update/remove programs with arbitrarily nested arguments; required sets, Sequence.jobs and scheduler membership are compared with the model after every statement, and the built graph is executed on the simulated loop."),
}

NOTE_A = ("Trusted: the SimLoop (virtual-time subclass of asyncio.BaseEventLoop), the scripted workload jobs and the oracles in /verif/sim; "
          "assumes jobs honour cancellation and co_shutdown handlers do not raise; explores only FIFO-ready-queue executions of CPython's asyncio; "
          "bounds: <= 14 atomic jobs, depth <= 3, durations on a 1/8 s grid. A clean batch is evidence, not proof.")
NOTE_B = ("Trusted: the ~200-line reference model written from the documentation; no clock/task/fault dimension exists for this property, "
          "only histories of API calls and set iteration order are explored (reduced form of the technique, see DESIGN.md section 6). Sampling, not enumeration.")


def main():
    have_b = os.path.exists(os.path.join(ROOT, 'sim', 'hcases.py'))
    checks = []
    model_props = ('C01', 'C04', 'C05', 'C08', 'C09', 'C10', 'C11', 'C12',
                   'C13', 'C14')
    for pid, (eng, level, ref, tech, text) in CHECKS.items():
        if eng == B and not have_b:
            continue
        if pid in model_props:
            tech += " + refinement of the recorded history against an executable reference model (tie-free runs)"
            text += " In addition, for every run in which nothing is left to scheduling choice, the full timed history is compared with the prediction of a small executable reference model (sim/refmodel.py); differences are reported under the property they belong to."
        if pid in ('C01', 'C02', 'C03', 'C12'):
            text += " One seed in four is an API history (constructor/requires/add/remove/bypass/keep_only/sanitize calls interleaved with read-only queries) followed by run(), one in ten a hand-designed motif (join under a full window, fan-out with mixed eligibility)."
        if pid in ('C01', 'C02', 'C03', 'C04', 'C07', 'C08', 'C11', 'C12', 'C14'):
            text += " One seed in twelve runs the same scheduler objects twice, with jobs_window / timeout re-assigned, members removed and new jobs added in between, the first run sometimes in an event loop of its own; the second run is what is judged."
        checks.append({
            "property_id": pid,
            "quick_cmd": "./check {} --tier quick".format(pid),
            "thorough_cmd": "./check {} --tier thorough".format(pid),
            "evidence_file": "evidence/{}.json".format(pid),
            "replay_cmd_template": "./check {} --replay {{path}}".format(pid),
            "engine": eng,
            "level_claimed": {"category": level, "text": text,
                              "design_ref": "DESIGN.md section " + ref},
            "level_note": NOTE_A if eng == A else NOTE_B,
            "technique": "deterministic simulation with fault injection: " + tech,
        })
    na = [{"property_id": "C20",
           "reason": "dot_format()/list() rendering is a pure function of the scheduler tree: no schedule, clock, fault, interleaving or history enters it, so deterministic simulation has nothing to decide (DESIGN.md section 7); the list() numbering part is checked under C15."}]
    if not have_b:
        for pid in ('C15', 'C16', 'C17', 'C18', 'C19'):
            na.append({"property_id": pid,
                       "reason": "history-simulation check (engine B) not built yet"})
    manifest = {
        "version": 1,
        "setup_cmd": "./check selftest --n 1900",
        "hooks": {
            "guard": "ASYNCIOJOBS_VERIF",
            "enable": "no hook is needed: the checks import /repo's working tree by path (VERIF_REPO, default /repo) and own every seam from the outside (event loop, time.time/time.monotonic, task factory, seeded __hash__ on workload classes); the guard variable is named for the interface only and guards nothing",
            "baseline_off_cmd": "cd /repo && /venv/bin/python -m pytest -ra -q -p no:cacheprovider --timeout=900 --continue-on-collection-errors tests",
            "source_commits": [],
            "add_only": True,
        },
        "engines": [
            {"name": A, "path": "sim/",
             "serves_properties": [p for p, c in CHECKS.items() if c[0] == A],
             "kind_free_text": "deterministic simulation: the unmodified library and the real asyncio Task/Future/Queue/wait machinery run on a virtual-time event loop with a seeded scheduler (order of same-instant timers, stalls, set iteration order via seeded hashes) and injected faults (raising jobs, critical failures, timeouts, cancellation of nested runs at swept instants, slow cleanups and shutdown handlers, jobs that raise or return from their cancellation handler or end with a CancelledError of their own, job / scheduler classes that define is_critical(), __bool__ or __len__ themselves); oracles over the recorded history, metamorphic twin runs, ddmin + replay files"},
            {"name": B, "path": "sim/h*.py",
             "serves_properties": [p for p, c in CHECKS.items() if c[0] == B],
             "kind_free_text": "seeded histories of graph/construction API calls executed against the library and a reference model, under seeded set iteration order; shrinking and replay"},
        ],
        "checks": checks,
        "not_applicable": na,
        "notes": "All checks: ./check <ID> --tier quick|thorough [--replay file]; exit 0 held / 1 VIOLATION / 2 harness error. VERIF_SEED shifts the seed range, VERIF_BUDGET (s) bounds the thorough tier, VERIF_JOBS the worker count. Genuine defects found and repaired are listed in KNOWN_FINDINGS.txt ('fixed:' lines); see DESIGN.md sections 8-9.",
    }
    with open(os.path.join(ROOT, 'MANIFEST.json'), 'w') as out:
        json.dump(manifest, out, indent=1)
    print("wrote MANIFEST.json with", len(checks), "checks")


if __name__ == '__main__':
    main()
