#!/bin/bash
# false-alarm sweep: every quick check on the unchanged tree under several VERIF_SEEDs
#   tools/fasweep.sh 1 2 3 4
cd "$(dirname "$0")/.."
for seed in "$@"; do
for p in C01 C02 C03 C04 C05 C06 C07 C08 C09 C10 C11 C12 C13 C14 C15 C16 C17 C18 C19; do
  out=$(VERIF_SEED=$seed ./check $p --tier quick 2>&1); code=$?
  echo "seed=$seed $p exit=$code $(echo "$out" | tail -1 | cut -c1-150)"
  if [ $code -ne 0 ]; then echo "$out" | grep -E "^violation|VIOLATION|HARNESS" | cut -c1-400; fi
done; done
