#!/venv/bin/python -B
"""
False-alarm hunt for the re-run cases only (they are 1 seed in 12 of the checks
that judge them): tools/rerun_stress.py <first seed> <count> [workers]
Prints every violation signature met on the tree under VERIF_REPO.
"""
import os
import random
import sys
from concurrent.futures import ProcessPoolExecutor
import multiprocessing

sys.path.insert(0, os.path.dirname(os.path.dirname(os.path.abspath(__file__))))
os.environ.setdefault('PYTHONHASHSEED', '0')


def work(args):
    first, n = args
    from sim import cases
    out = {}
    for seed in range(first, first + n):
        for prop in cases.RERUN_PROPS:
            rng = random.Random(seed * 12 + 5)
            case = cases.gen_rerun_case(rng, coro=prop == 'C02')
            try:
                res = cases.evaluate_case(prop, case)
            except Exception as exc:                    # pylint: disable=W0703
                out.setdefault(('HARNESS', prop, repr(exc)[:200]), seed)
                continue
            for v in res.violations:
                out.setdefault((prop, v.clause, v.site, v.msg[:200]), seed)
    return out


def main():
    first, count = int(sys.argv[1]), int(sys.argv[2])
    workers = int(sys.argv[3]) if len(sys.argv) > 3 else 8
    chunk = 500
    jobs = [(s, min(chunk, first + count - s))
            for s in range(first, first + count, chunk)]
    seen = {}
    ctx = multiprocessing.get_context('fork')
    with ProcessPoolExecutor(workers, mp_context=ctx) as pool:
        for res in pool.map(work, jobs):
            for key, seed in res.items():
                if key not in seen:
                    seen[key] = seed
                    print(seed, key, flush=True)
    print("done: %d seeds x %d properties, %d signature(s)" % (
        count, len(__import__("sim.cases").cases.RERUN_PROPS), len(seen)))
    return 1 if seen else 0


if __name__ == '__main__':
    sys.exit(main())
