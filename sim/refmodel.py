"""
An executable reference model of the *timed* behaviour of a scheduler tree, used
as a refinement oracle: for scenarios in which nothing is left to scheduling
choice (exact timing mode, no window, no closing trigger sharing its instant with
another job event, a nested run cancelled only while in its main loop), the model
predicts, from the spec alone, when every job starts and ends and how, when every
scheduler run is over and with which verdict. The library's recorded history must
equal the prediction.

Written from the documented semantics (and the properties C01-C13), not from the
library code; about 150 lines. Where the model cannot decide (a tie, a phase it
does not model) it returns None for that scheduler and nothing is compared there.
"""

from . import spec as S

INF = float('inf')

# properties under which mismatches with the model are reported
MODEL_PROPS = ('C01', 'C04', 'C05', 'C08', 'C09', 'C10', 'C11', 'C12',
               'C13', 'C14')


class Tie(Exception):
    """the scenario leaves something to the order of same-instant events"""


class Pred:
    """prediction for one scheduler run"""
    __slots__ = ('sid', 't0', 'members', 'close', 'trigger', 'over', 'kind',
                 'value', 't_c', 'd_sd', 'subs')

    def __init__(self, sid, t0):
        self.sid, self.t0 = sid, t0
        self.members = {}     # mid -> (start|None, end|None, kind|None)
        self.subs = {}        # mid -> Pred of a nested member that started


def dur(job):
    if job['outcome'] in ('never_fut', 'never_tick'):
        return INF
    return S.script_time(job['script'])


def handler_time(job):
    h = job.get('handler')
    if h == 'never':
        return INF
    return S.script_time(h)


def shutdown_len_unstarted(sched):
    """shutdown phase of a scheduler none of whose jobs ever started and that
    did not shut down yet (relayed by its parent)"""
    longest = 0.0
    for m in sched['members']:
        nat = shutdown_len_unstarted(m) if S.is_sched(m) else handler_time(m)
        longest = max(longest, nat)
    limit = sched['sd_timeout']
    return longest if limit is None else min(limit, longest)


def upstream(req, mid):
    seen, todo = set(), list(req[mid])
    while todo:
        cur = todo.pop()
        if cur not in seen:
            seen.add(cur)
            todo.extend(req[cur])
    return seen


def simulate(sched, t0, cancel_at=INF):
    """returns a Pred, or raises Tie"""
    pred = Pred(sched['id'], t0)
    members = sched['members']
    ids = [m['id'] for m in members]
    req = S.requirements(sched)
    byid = {m['id']: m for m in members}
    nat = {}          # mid -> (start, end, kind, sub-Pred)
    # edges go forward in index order, so this is a topological order
    for m in members:
        mid = m['id']
        start = t0
        for r in req[mid]:
            r_end, r_kind = nat[r][1], nat[r][2]
            if r_kind not in ('ret', 'exc'):
                start = INF
            start = max(start, r_end)
        if start == INF:
            nat[mid] = (INF, INF, None, None)
            continue
        if S.is_sched(m):
            try:
                sub = simulate(m, start)
            except Tie as tie:
                if str(tie) != "never ends":
                    raise
                nat[mid] = (start, INF, None, None)
                continue
            kind = 'ret' if sub.kind.startswith('ret') else sub.kind
            nat[mid] = (start, sub.over, kind, sub)
        else:
            end = start + dur(m)
            nat[mid] = (start, end, {'exc': 'exc', 'self_cancel': 'scancel'}
                        .get(m['outcome'], 'ret'), None)
    finite = [m['id'] for m in members if not m['forever']]
    if members and not finite:
        raise Tie("no non-forever job")
    t_fin = max([nat[i][1] for i in finite], default=t0)
    crits = sorted((nat[m['id']][1], m['id']) for m in members
                   if m['critical'] and nat[m['id']][2] == 'exc'
                   and nat[m['id']][1] != INF)
    t_crit = crits[0][0] if crits else INF
    if len(crits) > 1 and crits[1][0] == t_crit:
        raise Tie("two critical failures in one instant")
    t_exp = t0 + sched['timeout'] if sched['timeout'] is not None else INF
    cands = {'fin': t_fin, 'crit': t_crit, 'exp': t_exp, 'ext': cancel_at}
    t_close = min(cands.values())
    late_cancel = INF
    if cancel_at > t_close:
        # the run closes by itself first; the cancellation may still arrive
        # while it waits for its cancelled jobs or shuts down (see the end)
        late_cancel = cancel_at
        cands['ext'] = INF
    if t_close == INF:
        raise Tie("never ends")
    hit = [k for k, v in cands.items() if v == t_close]
    if hit == ['fin', 'crit'] or hit == ['crit', 'fin']:
        # the last regular job is the critical one that raises: one event
        last = [i for i in finite if nat[i][1] == t_fin]
        if last == [crits[0][1]]:
            hit = ['crit']
    if len(hit) != 1:
        raise Tie("two triggers in one instant")
    trigger = hit[0]
    # any other start or end in the closing instant is a tie
    origin = crits[0][1] if trigger == 'crit' else None
    enders = [i for i in finite if nat[i][1] == t_fin] \
        if trigger == 'fin' else []
    never = set()
    for mid in ids:
        start, end, _, _ = nat[mid]
        if start == t_close and start != INF:
            # successors of the raiser / of the last finisher never start;
            # anything else becoming eligible in the closing instant is a tie
            late = [r for r in req[mid] if nat[r][1] == t_close]
            if late and trigger == 'crit' and set(late) == {origin}:
                never.add(mid)
            elif trigger == 'fin' and mid in finite:
                pass        # a zero-time regular job: it is one of the enders
            elif late and trigger == 'fin':
                # a forever job that becomes eligible in the closing instant:
                # it never starts if every regular job ending in that instant
                # is upstream of it; it must start if one of them waits for
                # it; otherwise the order of the instant decides (tie)
                up = upstream(req, mid)
                if set(enders) <= up:
                    never.add(mid)
                elif not any(mid in upstream(req, e) for e in enders):
                    raise Tie("forever job eligible in the closing instant")
            else:
                raise Tie("a job starts in the closing instant")
        if mid in never:
            continue
        if end == t_close and mid != origin and not (
                trigger == 'fin' and end == t_fin and mid in finite):
            raise Tie("a job ends in the closing instant")
    if trigger == 'fin':
        if any(nat[i][1] == t_fin and i not in finite and i not in never
               for i in ids):
            raise Tie("a forever job ends with the last regular job")
    pred.close, pred.trigger = t_close, trigger
    t_c = t_close
    for mid in ids:
        start, end, kind, sub = nat[mid]
        m = byid[mid]
        if mid in never:
            pred.members[mid] = (None, None, None)
        elif end <= t_close:
            pred.members[mid] = (start, end, kind)
            if sub is not None:
                pred.subs[mid] = sub
        elif start < t_close:
            # active when the run closes: cancelled in that instant
            if S.is_sched(m):
                sub = simulate(m, start, cancel_at=t_close)
                if sub.kind != 'cancelled':
                    raise Tie("nested run not cancelled after all")
                pred.members[mid] = (start, sub.over, 'cancelled')
                pred.subs[mid] = sub
                t_c = max(t_c, sub.over)
            else:
                end = t_close + S.script_time(m.get('cleanup'))
                kind = {'exc': 'cexc', 'ret': 'cret'}.get(
                    m.get('cleanup_outcome'), 'cancelled')
                pred.members[mid] = (start, end, kind)
                t_c = max(t_c, end)
        else:
            pred.members[mid] = (None, None, None)
    # a window matters only if demand exceeds it (then who gets a slot is a
    # scheduling decision): closed intervals, conservatively
    if sched['window']:
        marks = []
        for start, end, _ in pred.members.values():
            if start is not None:
                marks.append((start, 0))
                marks.append((end, 1))
        marks.sort()
        busy = 0
        for _, is_end in marks:
            busy += -1 if is_end else 1
            if busy > sched['window']:
                raise Tie("window contention")
    # shutdown phase of this run
    longest = 0.0
    for m in members:
        mid = m['id']
        if S.is_sched(m):
            nat_sd = 0.0 if pred.members[mid][0] is not None \
                else shutdown_len_unstarted(m)
        else:
            nat_sd = handler_time(m)
        longest = max(longest, nat_sd)
    limit = sched['sd_timeout']
    if members and limit is not None and longest == limit and longest > 0:
        # a handler finishing exactly when the phase expires: tie
        raise Tie("handler ends when the shutdown phase expires")
    d_sd = longest if limit is None else min(limit, longest)
    if not members:
        d_sd = 0.0
    if d_sd == INF:
        raise Tie("unbounded shutdown")
    pred.t_c, pred.d_sd = t_c, d_sd
    pred.over = t_c + d_sd
    if late_cancel < pred.over:
        # cancelled by the enclosing scheduler during its own closing phases
        if late_cancel == t_c or any(
                end == late_cancel for _, end, _ in pred.members.values()):
            raise Tie("cancelled in the instant a closing phase ends")
        if late_cancel < t_c:
            # still waiting for cancelled jobs: they are cancelled again,
            # which cuts their cleanup short; then the shutdown phase
            for mid, (start, end, kind) in list(pred.members.items()):
                if kind in ('cancelled', 'cexc', 'cret') \
                        and end > late_cancel:
                    if mid in pred.subs:
                        raise Tie("nested run cancelled twice")
                    pred.members[mid] = (start, late_cancel, kind)
            pred.t_c = late_cancel
            pred.over = late_cancel + d_sd
        else:
            # shutting down: the pending handlers are cancelled at once
            pred.d_sd = late_cancel - t_c
            pred.over = late_cancel
        pred.kind, pred.value = 'cancelled', None
        return pred
    raising = sched['cls'] == 'Scheduler' and sched['critical']
    if trigger == 'fin':
        pred.kind, pred.value = 'ret:True', True
    elif trigger == 'ext':
        pred.kind, pred.value = 'cancelled', None
    elif raising:
        pred.kind = 'exc'
        if trigger == 'exp':
            pred.value = 'TimeoutError'
        else:
            # the atomic job (or the nested expiry) the exception comes from
            who = crits[0][1]
            pred.value = pred.subs[who].value if who in pred.subs else who
            if any(k == 'cexc' and byid[i]['critical']
                   for i, (_, _, k) in pred.members.items()):
                pred.value = None        # several candidates: not predicted
    else:
        pred.kind, pred.value = 'ret:False', False
    return pred


def predict(top, cancel_at=INF):
    """cancel_at: the top-level co_run() is cancelled from outside then
    (asyncio.wait_for around it)"""
    try:
        return simulate(top, 0.0, cancel_at=cancel_at)
    except Tie:
        return None


def flatten(pred, out=None):
    """dict sid -> Pred for every scheduler run the model predicts"""
    if out is None:
        out = {}
    out[pred.sid] = pred
    for sub in pred.subs.values():
        flatten(sub, out)
    return out


# ---------------------------------------------------------------- comparison

TRIGGER_PROP = {'crit': 'C05', 'exp': 'C08', 'fin': 'C09', 'ext': 'C11'}
TRIGGER_WORD = {'crit': 'critical failure', 'exp': 'expiry',
                'fin': 'last completion', 'ext': 'cancellation by the parent'}


def compare(hist, pred_top):
    """list of (property, clause, message) where the recorded history of the
    library differs from the prediction"""
    base = hist.run.knobs['base']
    out = []
    for sid, pred in flatten(pred_top).items():
        sr = hist.sr(sid)
        trig = pred.trigger
        tprop = TRIGGER_PROP[trig]
        word = TRIGGER_WORD[trig]
        if pred.kind == 'cancelled':
            tprop = 'C11'       # ended by the enclosing scheduler's cancel
        if sr.begin is None or sr.begin[1] - base != pred.t0:
            out.append(('C12', 'model:run-begin',
                        "{} should begin at t={} but began at {}".format(
                            sid, pred.t0, sr.begin and sr.begin[1] - base)))
            continue
        for mid, (start, end, kind) in pred.members.items():
            h = hist.nodes[mid]
            a_start = h.enter[1] - base if h.enter else None
            a_end = h.exit[1] - base if h.exit else None
            a_kind = h.exit[2] if h.exit else None
            if a_start != start:
                if start is None:
                    out.append((tprop, 'model:starts-after-' + trig,
                                "{} in {} must never start ({} at t={}) but "
                                "started at t={}".format(mid, sid, word,
                                                         pred.close, a_start)))
                elif a_start is not None and a_start < start:
                    out.append(('C01', 'model:starts-early',
                                "{} in {} started at t={} but its "
                                "requirements finish at t={}".format(
                                    mid, sid, a_start, start)))
                else:
                    out.append(('C12', 'model:starts-late',
                                "{} in {} should start at t={} but started at "
                                "{}".format(mid, sid, start, a_start)))
                continue
            if start is None:
                continue
            if (a_end, a_kind) != (end, kind):
                active_at_close = kind in ('cancelled', 'cexc', 'cret')
                out.append((tprop if active_at_close else 'C14',
                            'model:job-end' + ('-at-' + trig
                                               if active_at_close else ''),
                            "{} in {} should end at t={} ({}) but ended at "
                            "t={} ({}); {} of {} at t={}".format(
                                mid, sid, end, kind, a_end, a_kind, word, sid,
                                pred.close)))
        if sr.over is None:
            out.append((tprop, 'model:run-not-over',
                        "{} should be over at t={} after the {} at t={}"
                        .format(sid, pred.over, word, pred.close)))
            continue
        a_over = sr.over[1] - base
        if sr.over[2] == 'ret':
            a_kind = 'ret:' + repr(sr.value)
        else:
            a_kind = sr.over[2]
        if a_kind != pred.kind:
            out.append(('C04' if trig != 'ext' else 'C11', 'model:verdict',
                        "{} should end with {} ({} at t={}) but ended with {}"
                        .format(sid, pred.kind, word, pred.close, a_kind)))
        elif a_over != pred.over:
            out.append((tprop, 'model:end-instant',
                        "{} should be over at t={} ({} at t={}, cancellations "
                        "complete at t={}, shutdown phase {}s) but was over at "
                        "t={}".format(sid, pred.over, word, pred.close,
                                      pred.t_c, pred.d_sd, a_over)))
            if pred.d_sd and a_over - pred.t_c != pred.d_sd:
                out.append(('C13', 'model:shutdown-phase-length',
                            "{}: shutdown phase should last {}s from t={}, "
                            "run over at t={}".format(sid, pred.d_sd,
                                                      pred.t_c, a_over)))
        elif pred.kind == 'exc' and pred.value is not None:
            val = sr.value
            got = getattr(val, 'nid', None) or (
                'TimeoutError' if isinstance(val, TimeoutError) else repr(val))
            if got != pred.value:
                out.append(('C10' if hist.parents[sid] is not None else 'C04',
                            'model:exception-origin',
                            "{} should raise the exception of {} but raised "
                            "that of {}".format(sid, pred.value, got)))
    return out
