"""
Seeded scenario generator (swarm style): one random.Random -> features -> tree
-> knobs. Profiles bias the distribution towards what a property's oracle can
get wrong; they never change what is admissible.
"""

from . import spec as S

GRID = (0.25, 0.5, 0.75, 1.0, 1.25, 1.5, 2.0)
YIELDS = (1, 2, 3, 1, 2, 3, 4, 5, 6, 7, 9, 12)
HALF = 0.125

FEATURES = ('windows', 'timeouts', 'nesting', 'forever', 'failures',
            'critical', 'never', 'slow_cleanup', 'slow_handlers', 'stalls',
            'verbose', 'coro', 'zero_jobs', 'sd_none', 'never_handler',
            'inspect', 'cleanup_exc', 'self_cancel', 'odd_labels',
            'crit_method', 'odd_objects', 'guards')

# probability that a feature is enabled at all in a run
BASE_PROFILE = {
    'windows': 0.45, 'timeouts': 0.35, 'nesting': 0.5, 'forever': 0.4,
    'failures': 0.45, 'critical': 0.35, 'never': 0.3, 'slow_cleanup': 0.25,
    'slow_handlers': 0.3, 'stalls': 0.2, 'verbose': 0.15, 'coro': 0.4,
    'zero_jobs': 0.35, 'sd_none': 0.2, 'never_handler': 0.1, 'inspect': 0.2,
    'cleanup_exc': 0.15, 'self_cancel': 0.15, 'odd_labels': 0.2,
    'crit_method': 0.25, 'odd_objects': 0.25, 'guards': 0.2,
    'max_jobs': 14, 'max_depth': 3, 'pure_top': 0.3,
}


def profile(**over):
    prof = dict(BASE_PROFILE)
    prof.update(over)
    return prof


def THOROUGH():
    import os
    return os.environ.get('VERIF_TIER_EFFECTIVE') == 'thorough'


class _Gen:

    def __init__(self, rng, prof):
        self.rng = rng
        self.prof = prof
        self.feat = {f: rng.random() < prof.get(f, 0.0) for f in FEATURES}
        for feature in prof.get('force', ()):
            self.feat[feature] = True
        for feature in prof.get('forbid', ()):
            self.feat[feature] = False
        self.n_jobs = 0
        self.n_scheds = 0
        self.budget = rng.choice((3, 4, 5, 6, 8, 10, prof['max_jobs']))
        self.budget = min(self.budget, prof['max_jobs'])
        self.max_depth = prof['max_depth']
        if rng.random() < (0.12 if THOROUGH() else 0.03):
            # now and then a larger tree
            self.budget, self.max_depth = 24, 4
        # a small palette of durations makes equal completion instants common
        k = rng.choice((1, 2, 2, 3, 4))
        self.palette = [rng.choice(GRID) for _ in range(k)]
        self.p_fail = rng.choice((0.15, 0.3, 0.5))
        self.p_crit = rng.choice((0.2, 0.5, 0.8))

    # ---- leaves
    def steps(self, allow_zero=True):
        rng = self.rng
        steps = []
        if self.feat['zero_jobs'] and allow_zero and rng.random() < 0.25:
            k = rng.choice((0, 0, 1, 2, 3))
            return [["yield", k]] if k else []
        # (the yields decide in which iteration of the loop, within one
        # instant, things happen: up to a dozen apart)
        if rng.random() < 0.3:
            steps.append(["yield", rng.choice(YIELDS)])
        if self.feat['guards'] and rng.random() < 0.35:
            # an operation the body bounds with asyncio.timeout(), and which
            # takes a while to give up
            steps.append(["guard", [rng.choice(self.palette),
                                    rng.choice((0.25, 0.5, 0.125, 0.75))]])
        else:
            steps.append(["sleep", rng.choice(self.palette)])
        if rng.random() < 0.15:
            steps.append(["sleep", rng.choice(self.palette)])
        if rng.random() < 0.3:
            steps.append(["yield", rng.choice(YIELDS)])
        return steps

    def job(self):
        rng, feat = self.rng, self.feat
        self.n_jobs += 1
        node = {"id": "j%d" % self.n_jobs, "kind": "job",
                "cls": "coro" if feat['coro'] and rng.random() < 0.4
                else "abstract",
                "critical": feat['critical'] and rng.random() < self.p_crit,
                "forever": False, "script": self.steps(), "outcome": "ret",
                "cleanup": [], "handler": []}
        if feat['failures'] and rng.random() < self.p_fail:
            node["outcome"] = "exc"
            if rng.random() < 0.3:
                node["exc_noargs"] = True
            elif rng.random() < 0.15:
                node["exc_base"] = True
            elif rng.random() < 0.15:
                node["exc_type"] = "timeout"
        if feat['crit_method'] and rng.random() < 0.4:
            # criticality given by the job class's own is_critical(); the
            # constructor's flag says the opposite
            node["crit_method"] = True
        if feat['odd_objects'] and rng.random() < 0.4:
            node["falsy"] = True                # bool(job) is False
        if feat['odd_objects'] and rng.random() < 0.3:
            node["ret_awaitable"] = True        # returns an awaitable object
        if feat['odd_objects'] and rng.random() < 0.5:
            # how its requirements are handed over: the job itself rather
            # than a list, a generator, nested containers with None
            node["req_shape"] = rng.choice(("bare", "iter", "nested"))
        if feat['odd_labels'] and rng.random() < 0.4:
            node["label"] = rng.choice((None, "{}", "echo ${HOME} {0}",
                                        "50% {x} %s", "a\nb"))
        if feat['inspect'] and rng.random() < 0.3:
            step = ["inspect", rng.choice(("parent", "parent", "top")) + ":"
                    + rng.choice(("list", "cycles", "topo", "stats",
                                  "exits", "debrief", "list_safe", "dot",
                                  "iterate"))]
            node["script"].insert(rng.randrange(len(node["script"]) + 1),
                                  step)
        if feat['slow_cleanup'] and rng.random() < 0.5:
            node["cleanup"] = rng.choice(
                ([["sleep", 0.25]], [["sleep", 0.5]], [["yield", 2]],
                 [["sleep", rng.choice(GRID)]]))
        if feat['cleanup_exc'] and rng.random() < 0.3:
            node["cleanup_outcome"] = rng.choice(("exc", "exc", "ret"))
        if feat['slow_handlers'] and rng.random() < 0.15:
            node["handler_absorbs"] = True
        if feat['self_cancel'] and rng.random() < 0.2:
            # its co_shutdown() ends with a CancelledError of its own (the
            # idiom: helper.cancel(); await helper)
            node["handler_self_cancel"] = True
        if feat['slow_handlers'] and rng.random() < 0.5:
            node["handler"] = rng.choice(
                ([["sleep", 0.25]], [["sleep", 0.5]], [["sleep", 1.0]],
                 [["yield", rng.choice(YIELDS)]],
                 [["yield", rng.choice(YIELDS)]],
                 [["sleep", rng.choice(GRID)]], [["sleep", 0.125]]))
        return node

    # ---- schedulers
    def sched(self, depth, top=False):
        rng, feat, prof = self.rng, self.feat, self.prof
        self.n_scheds += 1
        node = {"id": "s%d" % self.n_scheds, "kind": "sched",
                "cls": "Scheduler", "critical": False, "forever": False,
                "window": None, "timeout": None, "sd_timeout": 1.0,
                "verbose": feat['verbose'] and rng.random() < 0.5,
                "members": [], "edges": [],
                "build": rng.choice(("ctor", "ctor", "add", "scheduler_kw",
                                     "sequence"))}
        if rng.random() < 0.12:
            node["watch"] = rng.choice(("default", "quiet"))
        if rng.random() < 0.2:
            node["late_attrs"] = True
            if rng.random() < 0.6:
                node["ctor_attrs"] = {
                    "jobs_window": rng.choice((None, 1, 1, 2, 5)),
                    "timeout": rng.choice((None, None, 0.25, 10.0))}
        if top and rng.random() < prof['pure_top']:
            node["cls"] = "PureScheduler"
        else:
            node["critical"] = feat['critical'] and rng.random() < self.p_crit \
                if not top else rng.random() < 0.5
            if feat['crit_method'] and rng.random() < 0.3:
                node["crit_method"] = True
            if feat['odd_objects'] and rng.random() < 0.3:
                node["req_shape"] = rng.choice(("bare", "iter", "nested"))
            if feat['crit_method'] and not node.get("crit_method") \
                    and not top and rng.random() < 0.3:
                node["crit_late"] = True
        if feat['odd_objects'] and rng.random() < 0.3:
            node["odd_len"] = True
        # members
        room = max(1, self.budget - self.n_jobs)
        n = min(room, rng.choice((1, 2, 2, 3, 3, 4, 5, 6, 7)))
        if not top and rng.random() < 0.04:
            n = 0                                   # empty nested scheduler
        for _ in range(n):
            if (feat['nesting'] and depth < self.max_depth
                    and self.n_jobs < self.budget and rng.random() < 0.3):
                node["members"].append(self.sched(depth + 1))
            elif self.n_jobs < self.budget or not node["members"]:
                node["members"].append(self.job())
        members = node["members"]
        n = len(members)
        # edges
        style = rng.choice(("sparse", "medium", "dense", "chain", "none",
                            "join"))
        p_edge = {"sparse": 0.15, "medium": 0.3, "dense": 0.6, "none": 0.0,
                  "chain": 0.0, "join": 0.0}[style]
        edges = []
        if style == "chain":
            edges = [[i, i + 1] for i in range(n - 1)]
        elif style == "join" and n >= 3:
            edges = [[i, n - 1] for i in range(n - 1)]
        else:
            for j in range(n):
                for i in range(j):
                    if rng.random() < p_edge:
                        edges.append([i, j])
        node["edges"] = edges
        # flags on members
        if feat['forever']:
            for m in members:
                if rng.random() < 0.25:
                    m["forever"] = True
        # timeout
        if feat['timeouts'] and rng.random() < (0.6 if top else 0.4):
            base = rng.choice(GRID + (0.0, 2.5, 3.0, 4.0))
            node["timeout"] = base + (HALF if rng.random() < 0.5 and base
                                      else 0.0)
            if node["timeout"] == int(node["timeout"]) and rng.random() < 0.5:
                node["timeout"] = int(node["timeout"])      # int, not float
        if feat['windows'] and rng.random() < 0.6:
            node["window"] = rng.choice((1, 1, 2, 2, 3, 0))
        # shutdown timeout
        sdt = rng.choice((1.0, 1, 0.5, 0.25, 0.0, 0, 2.0))
        if feat['sd_none'] and rng.random() < 0.4:
            sdt = None
        node["sd_timeout"] = sdt
        if feat['never_handler'] and sdt is not None:
            for m in members:
                if not S.is_sched(m) and rng.random() < 0.25:
                    m["handler"] = "never"
        if feat['odd_labels'] and not top and rng.random() < 0.3:
            node["label"] = rng.choice((None, "{}", "deploy {node}", "%d%%"))
        # jobs that end with a CancelledError of their own: only where nothing
        # requires them (what a requirement on such a job means is unspecified)
        if feat['self_cancel']:
            required = {a for a, _ in edges}
            for i, m in enumerate(members):
                if not S.is_sched(m) and i not in required \
                        and m['outcome'] == 'ret' and rng.random() < 0.3:
                    m['outcome'] = 'self_cancel'
        # never-ending jobs
        if feat['never']:
            for m in members:
                if not S.is_sched(m) and rng.random() < 0.3:
                    m["outcome"] = rng.choice(("never_fut", "never_tick"))
        return node


def _repair(top, rng):
    """make a tree admissible with as little change as possible"""
    def fix(node, covered):
        if not S.is_sched(node):
            return
        covered = covered or node['timeout'] is not None
        members = node['members']
        for m in members:
            fix(m, covered)
        if not members or covered:
            return
        finite = [m for m in members if not m['forever']]
        if not finite:
            victim = rng.choice(members)
            victim['forever'] = False
            finite = [victim]
        req = S.requirements(node)
        byid = {m['id']: m for m in members}
        seen, todo = set(), [m['id'] for m in finite]
        while todo:
            cur = todo.pop()
            if cur in seen:
                continue
            seen.add(cur)
            _make_endable(byid[cur], rng)
            todo.extend(req[cur])
        win = node['window']
        if win:
            stuck = sum(1 for m in members if not S.can_end(m))
            if win <= stuck:
                node['window'] = stuck + 1
    fix(top, False)
    _no_degenerate(top, rng)
    # never-returning handlers need a bounded shutdown phase
    for node, parent, _ in S.walk(top):
        if not S.is_sched(node) and node.get('handler') == 'never' \
                and parent['sd_timeout'] is None:
            node['handler'] = []


def _no_degenerate(top, rng):
    """every non-empty scheduler gets at least one non-forever member, also
    under a timeout (otherwise 'its last non-forever job' is vacuous)"""
    for node, _, _ in S.walk(top):
        if S.is_sched(node) and node['members'] and \
                all(m['forever'] for m in node['members']):
            rng.choice(node['members'])['forever'] = False


def _make_endable(node, rng):
    if S.can_end(node):
        return
    if not S.is_sched(node):
        node['outcome'] = 'ret'
        return
    # a scheduler that cannot end: give it a non-forever member that can
    finite = [m for m in node['members'] if not m['forever']]
    if not finite:
        victim = rng.choice(node['members'])
        victim['forever'] = False
        finite = [victim]
    req = S.requirements(node)
    byid = {m['id']: m for m in node['members']}
    seen, todo = set(), [m['id'] for m in finite]
    while todo:
        cur = todo.pop()
        if cur in seen:
            continue
        seen.add(cur)
        _make_endable(byid[cur], rng)
        todo.extend(req[cur])


def gen_tree(rng, prof=None):
    """returns (top spec, features dict)"""
    prof = prof or BASE_PROFILE
    gen = _Gen(rng, prof)
    top = gen.sched(1, top=True)
    if not prof.get('allow_all_forever'):
        _no_degenerate(top, rng)
    if not S.admissible(top):
        _repair(top, rng)
    why = []
    if not S.admissible(top, why):                      # pragma: no cover
        raise AssertionError("generator produced inadmissible tree: %r" % why)
    return top, gen.feat


def gen_knobs(rng, feat, prof=None):
    stall = 0
    if feat.get('stalls'):
        stall = rng.choice((3, 6, 6, 10))
    return {
        "salt": rng.randrange(1 << 30),
        "base": float(rng.choice((0, 1000, 86400 * 3, 12345.5, 7.25))),
        "wall_offset": rng.choice((0, 1_700_000_000, 1_700_000_000 + 3600,
                                   -500)),
        "tie_shuffle": rng.random() < 0.85,
        "stall_den": stall,
        "entry": rng.choice(("run", "co_run", "orchestrate", "run")),
        "sync_shutdown": rng.random() < 0.3,
        "noise": rng.choice((0, 0, 0, 0.25, 0.125)),
        "sched_seed": rng.randrange(1 << 30),
        # the wall clock stepped forwards or backwards in the middle of the
        # run (not the loop's clock, not time.monotonic())
        "wall_jump": None if rng.random() < 0.8 else
        [rng.choice(GRID) - rng.choice((0.0, HALF)),
         rng.choice((-3600.0, -1.0, -0.5, 0.5, 1.0, 3600.0))],
        # the application turns the package's warnings into errors
        "strict_warnings": rng.random() < 0.15,
    }


def maybe_wait_for(knobs, rng, prof):
    """with the profile's probability, the run is driven through
    asyncio.wait_for with a bound on the grid"""
    if prof and rng.random() < prof.get('wait_for_entry', 0.0):
        knobs['entry'] = 'wait_for'
        knobs['entry_timeout'] = rng.choice(GRID) + rng.choice((0.0, HALF))
    return knobs


def gen_scenario(seed, prof=None):
    import random
    rng = random.Random(seed)
    top, feat = gen_tree(rng, prof)
    knobs = gen_knobs(rng, feat)
    return top, knobs, feat


# ---------------------------------------------------------------- motifs
# Small hand-designed shapes around an interleaving that random trees reach
# only rarely; every parameter (durations, yields, window, flags) is seeded.

def _job(nid, script, **kw):
    node = {"id": nid, "kind": "job", "cls": "abstract", "critical": False,
            "forever": False, "script": script, "outcome": "ret",
            "cleanup": [], "handler": []}
    node.update(kw)
    return node


def _sched(nid, members, edges, **kw):
    node = {"id": nid, "kind": "sched", "cls": "Scheduler", "critical": False,
            "forever": False, "window": None, "timeout": None,
            "sd_timeout": 1.0, "verbose": False, "members": members,
            "edges": edges, "build": "ctor"}
    node.update(kw)
    return node


def motif_join_under_full_window(rng):
    """
    A (may raise, non-critical) and D finish a few loop iterations apart in
    one instant; C requires both; the window is full and other jobs are queued,
    so that C waits for a slot after it has been scheduled.
    """
    d = rng.choice(GRID)
    k = rng.choice((0, 1, 2, 3, 4, 5))
    n_queue = rng.choice((2, 3, 4))
    a = _job("j1", [["sleep", d]],
             outcome=rng.choice(("exc", "exc", "ret")),
             cls=rng.choice(("abstract", "coro")))
    dd = _job("j2", [["sleep", d]] + ([["yield", k]] if k else []))
    gate = _job("j3", [["sleep", rng.choice((0.125, 0.25))]])
    members = [a, dd, gate]
    edges = []
    for i in range(n_queue):
        members.append(_job("j%d" % (4 + i),
                            [["sleep", d + rng.choice((1.0, 2.0, 0.5))]]))
        edges.append([2, 3 + i])
    join = _job("j%d" % (4 + n_queue),
                [["sleep", rng.choice((0.25, 0.5))]])
    members.append(join)
    edges += [[0, len(members) - 1], [1, len(members) - 1]]
    # an unrelated regular job that outlasts everything else
    members.append(_job("j%d" % (5 + n_queue), [["sleep", d + 4.0]]))
    top = _sched("s1", members, edges, window=3,
                 cls=rng.choice(("Scheduler", "PureScheduler")))
    if rng.random() < 0.3:
        top = _sched("s0", [top], [], cls="Scheduler")
        top["members"][0]["cls"] = "Scheduler"
    return top


def motif_fanout_mixed_eligibility(rng):
    """
    x finishes; among its successors some are eligible at once, others still
    wait for another requirement y (finishing later, or in the same instant a
    few iterations apart); optionally under a window.
    """
    d = rng.choice(GRID)
    later = rng.choice((0.0, 0.25, 0.5))
    k = rng.choice((0, 1, 2, 3))
    x = _job("j1", [["sleep", d]],
             outcome=rng.choice(("ret", "ret", "exc")))
    y = _job("j2", [["sleep", d + later]] + ([["yield", k]] if k else []))
    members, edges = [x, y], []
    n = rng.choice((2, 3, 4, 5))
    for i in range(n):
        members.append(_job("j%d" % (3 + i),
                            [["sleep", rng.choice((0.25, 0.5))]]))
        edges.append([0, 2 + i])
        if rng.random() < 0.5:
            edges.append([1, 2 + i])
    top = _sched("s1", members, sorted(edges),
                 window=rng.choice((None, None, 2, 3)),
                 cls=rng.choice(("Scheduler", "PureScheduler")))
    return top


MOTIFS = (motif_join_under_full_window, motif_fanout_mixed_eligibility)


def gen_motif(seed):
    import random
    rng = random.Random(seed)
    top = rng.choice(MOTIFS)(rng)
    feat = {"stalls": rng.random() < 0.1}
    knobs = gen_knobs(rng, feat)
    return top, knobs
