"""
Cases: what one seed turns into for each property (a base scenario, and for the
sweeping properties the derived scenarios), and how a case is evaluated.

case = {"spec": tree, "knobs": {...}, "choices": None | [ints],
        "aux": {...property specific, e.g. {"switch": "j3"} or {"mech": ...}}}
"""

import random

from . import spec as S
from . import gen
from . import oracles
from . import twins
from . import refmodel
from .digest import shape
from .history import History, INF
from .runner import run_spec

RUNTIME_PROPS = ('C01', 'C02', 'C03', 'C04', 'C05', 'C06', 'C07', 'C08',
                 'C09', 'C10', 'C11', 'C12', 'C13', 'C14')

P = gen.profile

PROFILES = {
    'C01': P(),
    'C02': P(forever=0.6, zero_jobs=0.6, windows=0.55, failures=0.5),
    'C03': P(windows=0.7, failures=0.7, never=0.45, timeouts=0.35,
             allow_all_forever=True, stalls=0.1),
    'C04': P(critical=0.8, timeouts=0.6, nesting=0.6, failures=0.6),
    'C05': P(force=('critical', 'failures'), windows=0.5, slow_cleanup=0.4),
    'C06': P(force=('failures',), windows=0.5, timeouts=0.15, critical=0.15,
             stalls=0.0),
    'C07': P(force=('windows',), failures=0.5, timeouts=0.4, critical=0.4),
    'C08': P(force=('timeouts',), never=0.5, windows=0.4, slow_cleanup=0.35,
             allow_all_forever=True),
    'C09': P(force=('forever',), never=0.5, windows=0.4, zero_jobs=0.5),
    'C10': P(force=('nesting',), critical=0.7, failures=0.6, timeouts=0.3),
    'C11': P(force=('nesting',), slow_cleanup=0.6, slow_handlers=0.6,
             timeouts=0.5, critical=0.5, forever=0.5, never=0.4, stalls=0.1,
             wait_for_entry=0.15),
    'C12': P(windows=0.5, zero_jobs=0.5, failures=0.4),
    'C13': P(force=('slow_handlers',), nesting=0.6, sd_none=0.4,
             never_handler=0.3, timeouts=0.5, critical=0.5, slow_cleanup=0.3),
    'C14': P(windows=0.5, coro=0.6, failures=0.5, timeouts=0.4, critical=0.4),
}

# profile used for the flattening twin: shapes that satisfy its preconditions
FLAT_PROFILE = P(force=('nesting', 'critical'), forbid=(
    'windows', 'timeouts', 'forever', 'never', 'slow_handlers', 'stalls',
    'never_handler'), failures=0.5, slow_cleanup=0.3)

# insertion-order twin of C12: unwindowed trees
UNWINDOWED_PROFILE = P(forbid=('windows', 'stalls'), zero_jobs=0.5,
                       failures=0.4, timeouts=0.25, critical=0.25)

SWEEP_EVERY = {'C08': 6, 'C11': 5, 'C13': 8}


def make_case(spec, knobs, aux=None, choices=None):
    return {"spec": spec, "knobs": knobs, "choices": choices,
            "aux": aux or {}}


# ---------------------------------------------------------------- generation

def gen_cases(prop, seed):
    """all the cases that one seed stands for"""
    rng = random.Random(seed)
    if prop in ('C01', 'C02', 'C03', 'C12') and seed % 4 == 0:
        # a history of construction / query / surgery calls, then run():
        # judged by the history engine, reported under this property
        from .hgen import gen_history
        return [gen_history(seed, prop)]
    if prop in RERUN_PROPS and seed % 12 == 5:
        return [gen_rerun_case(rng, coro=prop == 'C02')]
    if prop in ('C02', 'C12', 'C01', 'C03') and seed % 10 == 1:
        top, knobs = gen.gen_motif(seed)
        return [make_case(top, knobs, {"motif": True})]
    if prop == 'C06' and seed % 10 == 1:
        # the motifs as return<->raise twins: j1 is the switched job
        top, knobs = gen.gen_motif(seed)
        nodes, _ = S.index(top)
        nodes['j1']['outcome'], nodes['j1']['critical'] = 'ret', False
        return [make_case(top, knobs, {"motif": True, "switch": "j1"})]
    if prop == 'C10' and seed % 2:
        top, feat = gen.gen_tree(rng, FLAT_PROFILE)
        _make_flattenable(top)
        knobs = gen.gen_knobs(rng, feat)
        return [make_case(top, knobs, {"twin": "flatten"})]
    if prop == 'C12' and seed % 3 == 0:
        top, feat = gen.gen_tree(rng, UNWINDOWED_PROFILE)
        knobs = gen.gen_knobs(rng, feat)
        return [make_case(top, knobs, {"twin": "permute",
                                       "perm_seed": rng.randrange(1 << 30)})]
    top, feat = gen.gen_tree(rng, PROFILES[prop])
    knobs = gen.maybe_wait_for(gen.gen_knobs(rng, feat), rng, PROFILES[prop])
    if prop == 'C06':
        cands = twins.c06_candidates(top)
        if not cands:
            # make one: switch some failing/critical job into a candidate
            jobs = [n for n, _, _ in S.walk(top) if not S.is_sched(n)]
            if not jobs:
                return []
            job = rng.choice(jobs)
            job['critical'], job['outcome'] = False, 'ret'
            cands = [job['id']]
        if rng.random() < 0.12:
            return [make_case(top, knobs, {"switch": rng.choice(cands),
                                           "switch_kind": "self_cancel"})]
        if rng.random() < 0.25:
            # the other way of raising: from the cancellation handler
            pool = [n['id'] for n, _, _ in S.walk(top)
                    if not S.is_sched(n) and not n['critical']]
            return [make_case(top, knobs, {"switch": rng.choice(pool),
                                           "switch_kind": "cleanup"})]
        return [make_case(top, knobs, {"switch": rng.choice(cands)})]
    cases = [make_case(top, knobs)]
    every = SWEEP_EVERY.get(prop)
    if every and gen.THOROUGH():
        every = max(2, every // 2)      # denser sweeps in the thorough tier
    if every and seed % every == 0:
        if prop == 'C08':
            cases += sweep_timeout(top, knobs, rng)
        else:
            cases += sweep_enclosing_end(top, knobs, rng)
    return cases


RERUN_PROFILE = P(forbid=('coro', 'inspect'), windows=0.7, timeouts=0.6,
                  nesting=0.6, never=0.4, forever=0.4, max_depth=2,
                  max_jobs=8)


RERUN_PROPS = ('C01', 'C02', 'C03', 'C04', 'C07', 'C08', 'C11', 'C12', 'C14')
RERUN_CORO_PROFILE = P(forbid=('inspect',), coro=1.0, windows=0.5,
                       timeouts=0.3, nesting=0.5, forever=0.3, max_depth=2,
                       max_jobs=8)


def gen_rerun_case(rng, coro=False):
    """
    The same scheduler objects run twice, jobs_window / timeout re-assigned in
    between, members removed (possibly all of them; only in schedulers without
    requirements, removal would leave them dangling) and new jobs added. Jobs
    are AbstractJob subclasses (a coroutine object cannot be awaited twice).
    """
    # (coro: some jobs are Job(coroutine object) instances; what Python does
    # to those in a second run - RuntimeError, the body does not run - is
    # their outcome then: see c02)
    top, feat = gen.gen_tree(rng, RERUN_CORO_PROFILE if coro
                             else RERUN_PROFILE)
    keep_edges = rng.random() < 0.5
    for node, _, _ in S.walk(top):
        if S.is_sched(node):
            if not keep_edges:
                node['edges'] = []
            node['build'] = 'ctor'
        elif not coro:
            node['cls'] = 'abstract'
        elif node['cls'] == 'coro':
            node['handler'] = []
            node['critical'] = False
    if not S.admissible(top):
        gen._repair(top, rng)
    attrs2 = {}
    for node, _, _ in S.walk(top):
        if S.is_sched(node):
            win, tmo = node['window'], node['timeout']
            if rng.random() < 0.6:
                win = rng.choice((None, 1, 2, 3, 0))
            if rng.random() < 0.5:
                tmo = rng.choice((None, 0.5, 1.0, 1.5, 2.125, 3.0))
            attrs2[node['id']] = {"window": win, "timeout": tmo}
    if rng.random() < 0.5:
        # membership edited between the two runs
        extra, _ = gen.gen_tree(rng, RERUN_PROFILE)
        fresh = [S.clone(n) for n, _, _ in S.walk(extra) if not S.is_sched(n)]
        for k, node in enumerate(fresh):
            node['id'] = 'x%d' % (k + 1)
            node['cls'] = 'abstract'
            node['forever'] = False
            if 'label' in node:
                del node['label']
        for node, _, _ in S.walk(top):
            if not S.is_sched(node):
                continue
            mem = [m['id'] for m in node['members']]
            if mem and not node['edges'] and rng.random() < 0.4:
                k = len(mem) if rng.random() < 0.35 else \
                    rng.randrange(1, len(mem) + 1)
                attrs2[node['id']]["drop"] = rng.sample(mem, k)
            if fresh and rng.random() < 0.4:
                k = rng.choice((1, 1, 2, 3))
                attrs2[node['id']]["new"], fresh = fresh[:k], fresh[k:]
    knobs = gen.gen_knobs(rng, feat)
    knobs['noise'] = 0
    if rng.random() < 0.35:
        knobs['first_run_other_loop'] = True
    return {"spec": top, "knobs": knobs, "choices": None,
            "aux": {"rerun": True}, "attrs2": attrs2}


def second_spec(case):
    spec2 = S.clone(case['spec'])
    for node, _, _ in list(S.walk(spec2)):
        if S.is_sched(node) and node['id'] in case['attrs2']:
            attrs = case['attrs2'][node['id']]
            node['window'] = attrs['window']
            node['timeout'] = attrs['timeout']
            drop = set(attrs.get('drop') or ())
            node['members'] = [m for m in node['members']
                               if m['id'] not in drop]
            node['members'] += [S.clone(n) for n in attrs.get('new') or ()]
            if drop:
                node['edges'] = []
    return spec2


def evaluate_rerun(prop, case):
    res = Result()
    res.stats = stats = {}
    res.extra_runs = 1
    spec2 = second_spec(case)
    # (removing members may leave a scheduler with forever jobs only: 'its
    # last non-forever job' is vacuous there, as in the generator)
    degenerate = any(
        S.is_sched(n) and n['members'] and all(m['forever']
                                               for m in n['members'])
        for n, _, _ in S.walk(spec2))
    if degenerate or not S.admissible(spec2):
        res.violations, res.shape, res.nontrivial = [], 0, False
        res.run, res.vtime = None, 0.0
        return res
    run = run_spec(case['spec'], case['knobs'], case.get('choices'),
                   attrs2=case['attrs2'], spec2=spec2)
    if run.harness_error:
        raise RuntimeError(run.harness_error)
    res.run = run
    if run.seq_rerun is None:
        # the first run got stuck: nothing to judge here (C03's business)
        res.violations, res.shape, res.nontrivial = [], shape(run), False
        res.vtime = run.loop_stats['vtime']
        return res
    run.spec = spec2
    hist = History(run)
    viols = []
    if run.outcome not in ('ret', 'exc'):
        # (a second run that gets stuck: termination is C03's subject; C07,
        # C08 and C11 have reported it since re-runs exist, the others leave
        # it to them)
        if prop in ('C03', 'C07', 'C08', 'C11'):
            viols.append(oracles.Violation(
                prop, 'second-run-does-not-terminate', 'rerun',
                "second run of the same scheduler: {} ({})".format(
                    run.outcome, run.value)))
    elif prop == 'C14':
        viols = oracles.c14_new_jobs(hist, [
            n['id'] for attrs in case['attrs2'].values()
            for n in attrs.get('new') or ()])
        viols += oracles.c14_rerun_implications(hist)
    else:
        fn = oracles.ORACLES[prop]
        viols = fn(hist) if fn in (oracles.c01, oracles.c02, oracles.c03,
                                   oracles.c04) else fn(hist, stats)
    for nid, seq, t in hist.stray:
        viols.append(oracles.Violation(
            prop, 'removed-job-takes-part-in-second-run', 'rerun',
            "{} was removed from its scheduler between the two runs but "
            "logged an event at seq {} t={}".format(nid, seq, t)))
        break
    for v in viols:
        v.site = 'rerun-' + v.site
    stats['second_runs_judged'] = 1
    _loop_stats(run, stats)
    res.violations = viols
    res.shape = shape(run)
    res.nontrivial = True
    res.vtime = run.loop_stats['vtime']
    return res


def _make_flattenable(top):
    for node, parent, _ in S.walk(top):
        if S.is_sched(node):
            node['window'] = None
            if parent is not None:
                node['critical'] = True
                node['timeout'] = None
                node['forever'] = False
                for m in node['members']:
                    m['forever'] = False
        else:
            node['handler'] = []
            if S.script_time(node.get('cleanup')):
                node['cleanup'] = [["yield", 2]]
            if node['outcome'] in ('never_fut', 'never_tick', 'self_cancel'):
                # (a self-cancelling job must have no successor: flattening
                # would give it the successors of its scheduler)
                node['outcome'] = 'ret'


def _timeline_instants(run, lo, hi):
    return [t for t in run.instants if lo <= t <= hi]


def sweep_timeout(top, knobs, rng):
    """C08: place T at every instant of the chosen scheduler's timeline:
    exactly on, strictly between (half grid), zero, and after the last"""
    nodes, _ = S.index(top)
    scheds = [n for n in nodes.values() if S.is_sched(n)]
    target = rng.choice(scheds)
    base_top = S.clone(top)
    S.index(base_top)[0][target['id']]['timeout'] = None
    if not S.admissible(base_top):
        base_top = top
    k0 = dict(knobs)
    k0['stall_den'] = 0
    run = run_spec(base_top, k0, poll=False)
    if run.harness_error or run.outcome not in ('ret', 'exc'):
        return []
    hist = History(run)
    sr = hist.sr(target['id'])
    if sr.begin is None:
        return []
    end = sr.over[1] if sr.over else run.t_end
    offs = set()
    for t in _timeline_instants(run, sr.begin[1], end):
        offs.add(t - sr.begin[1])
        offs.add(t - sr.begin[1] + gen.HALF)
    offs.add(0.0)
    offs.add(end - sr.begin[1] + 0.25)
    out = []
    for off in sorted(offs):
        spec = S.clone(top)
        S.index(spec)[0][target['id']]['timeout'] = off
        out.append(make_case(spec, knobs, {"sweep": "timeout",
                                           "target": target['id'],
                                           "T": off}))
    return out


def sweep_enclosing_end(top, knobs, rng):
    """C11/C13: make the scheduler that encloses a nested run N end at every
    instant of N's timeline (grid and half-grid), by each mechanism"""
    nodes, parents = S.index(top)
    nested = [n for n in nodes.values()
              if S.is_sched(n) and parents[n['id']] is not None]
    if not nested:
        return []
    target = rng.choice(nested)
    parent = parents[target['id']]
    k0 = dict(knobs)
    k0['stall_den'] = 0
    run = run_spec(top, k0, poll=False)
    if run.harness_error or run.outcome not in ('ret', 'exc'):
        return []
    hist = History(run)
    sr, psr = hist.sr(target['id']), hist.sr(parent['id'])
    if psr.begin is None:
        return []
    p0 = psr.begin[1]
    if sr.begin is not None:
        lo = sr.begin[1]
        hi = sr.over[1] if sr.over else run.t_end
    else:
        lo = hi = p0
    offs = set()
    for t in _timeline_instants(run, lo, hi):
        offs.add(t - p0)
        offs.add(t - p0 + gen.HALF)
    if lo - p0 >= 0.25:
        offs.add(lo - p0 - gen.HALF)
    offs = sorted(o for o in offs if o >= 0)
    if len(offs) > 14:
        offs = sorted(rng.sample(offs, 14))
    out = []
    n_jobs = sum(1 for n in nodes.values() if not S.is_sched(n))
    for mech in ('timeout', 'critical', 'forever'):
        for off in offs:
            spec = S.clone(top)
            snodes, _ = S.index(spec)
            par, tgt = snodes[parent['id']], snodes[target['id']]
            if mech == 'timeout':
                par['timeout'] = off
            else:
                extra = {"id": "j%d" % (n_jobs + 1), "kind": "job",
                         "cls": "abstract", "critical": mech == 'critical',
                         "forever": False,
                         "script": [["sleep", off]] if off else [],
                         "outcome": "exc" if mech == 'critical' else "ret",
                         "cleanup": [], "handler": []}
                par['members'].append(extra)
                if par['window']:
                    par['window'] += 1
                if mech == 'forever':
                    for m in par['members']:
                        if m is not extra:
                            m['forever'] = True
                    tgt['forever'] = True
            if not S.admissible(spec):
                continue
            out.append(make_case(spec, knobs, {"sweep": mech,
                                               "target": target['id'],
                                               "off": off}))
    # depth 3: the grand-parent ends too, shortly after the parent did, i.e.
    # while the nested run is handling its first cancellation (second
    # cancellation landing in its tidying or in its shutdown phase)
    grand = parents[parent['id']]
    if grand is not None:
        gsr = hist.sr(grand['id'])
        if gsr.begin is not None:
            shift = p0 - gsr.begin[1]
            some = offs if len(offs) <= 6 else sorted(rng.sample(offs, 6))
            for off in some:
                for delta in (0.0, 0.125, 0.25, 0.5, 1.0):
                    spec = S.clone(top)
                    snodes, _ = S.index(spec)
                    snodes[parent['id']]['timeout'] = off
                    snodes[grand['id']]['timeout'] = shift + off + delta
                    if S.admissible(spec):
                        out.append(make_case(spec, knobs, {
                            "sweep": "double-timeout",
                            "target": target['id'], "off": off,
                            "delta": delta}))
    return out


# ---------------------------------------------------------------- evaluation

NONTRIVIAL_KEYS = {
    'C05': ('crit_with_siblings_active',),
    'C07': ('window_full',),
    'C08': ('timeouts_fired',),
    'C09': ('forever_cancelled_at_end',),
    'C10': ('contained_failures', 'propagated_failures', 'flatten_judged'),
    'C12': ('job_waited_for_slot', 'dependent_started',
            'insertion_twin_judged'),
    'C13': ('stragglers_cancelled', 'shutdown_on:timeout',
            'shutdown_on:critical'),
    'C14': ('seen_scheduled_not_running', 'job_cancelled'),
    'C06': ('judged_full', 'judged_reduced', 'judged_verdicts_only'),
}


class Result:
    __slots__ = ('violations', 'stats', 'shape', 'nontrivial', 'run',
                 'extra_runs', 'vtime')


def _generic_stats(run, hist, stats):
    def bump(key, n=1):
        if n:
            stats[key] = stats.get(key, 0) + n
    n_raise = n_cancel = n_sdcancel = n_again = 0
    for h in hist.nodes.values():
        if h.is_sched and len(h.cancel_req) >= 2 and h.enters:
            bump('fault:nested_run_cancelled_twice')
        for _, _, kind in h.exits:
            if kind == 'cancelled':
                if h.is_sched:
                    bump('fault:nested_run_cancelled')
                else:
                    n_cancel += 1
            elif kind == 'exc' and not h.is_sched:
                n_raise += 1
                if h.spec.get('crit_method'):
                    bump('fault:raised_by_job_defining_is_critical')
                if h.spec.get('exc_type') == 'timeout':
                    bump('fault:job_raised_TimeoutError')
                elif h.spec.get('exc_base'):
                    bump('fault:job_raised_BaseException')
            elif kind == 'scancel':
                bump('fault:job_ended_with_own_CancelledError')
            elif kind == 'cexc':
                bump('fault:job_raised_from_cancellation_handler')
            elif kind == 'cret':
                bump('fault:job_returned_from_cancellation_handler')
        n_sdcancel += len(h.sd_cancel)
        n_again += len(h.cancel_again)
    jump = run.knobs.get('wall_jump')
    if jump and jump[0] <= getattr(run, 't_end', 0.0) - run.knobs['base']:
        bump('fault:wall_clock_stepped_during_the_run')
    n_guard = sum(1 for h in hist.nodes.values() if not h.is_sched and h.enters
                  and any(op == 'guard' for op, _ in h.spec.get('script') or ()))
    bump('fault:own_task_cancelled_by_inner_asyncio_timeout', n_guard)
    if run.knobs.get('strict_warnings'):
        bump('fault:package_warnings_turned_into_errors')
    for h in hist.nodes.values():
        if not h.is_sched and h.spec.get('handler_self_cancel') and h.sd_exit:
            bump('fault:shutdown_handler_ended_with_own_CancelledError')
    bump('fault:job_raised', n_raise)
    bump('fault:job_cancelled', n_cancel)
    bump('fault:shutdown_handler_cancelled', n_sdcancel)
    bump('fault:job_cancelled_again_during_cleanup', n_again)
    if n_cancel:
        stats['job_cancelled'] = 1
    for sid in hist.sched_ids():
        sr = hist.sr(sid)
        if sr.begin is None:
            continue
        if any(sr.req[mh.nid] and mh.enters for mh in sr.mh):
            stats['dependent_started'] = 1
        if sr.verdict == 'fail':
            bump('fault:scheduler_failed_' + str(sr.cause))
        elif sr.verdict == 'success':
            bump('sched_succeeded')
    if run.outcome in ('deadlock', 'livelock', 'horizon'):
        stats['stuck:' + run.outcome] = 1
    if run.loop_stats['ties']:
        stats['runs_with_ties'] = 1
    if run.loop_stats['stalls']:
        stats['runs_with_stalls'] = 1


def _nontrivial(prop, run, hist, stats):
    keys = NONTRIVIAL_KEYS.get(prop)
    if keys is not None:
        return any(stats.get(k) for k in keys)
    if prop == 'C01':
        return bool(stats.get('dependent_started'))
    if prop == 'C02':
        return any(hist.sr(s).verdict == 'success' and len(hist.sr(s).mh) >= 2
                   for s in hist.sched_ids())
    if prop == 'C03':
        return S.admissible(run.spec) and any(
            (S.is_sched(n) and (n['window'] or n['timeout'] is not None))
            or (not S.is_sched(n) and n['outcome'] != 'ret')
            for n, _, _ in S.walk(run.spec))
    if prop == 'C04':
        return any(k.startswith('fault:scheduler_failed') for k in stats)
    if prop == 'C11':
        return any(k.startswith('nested_cancelled_in') for k in stats)
    return True


def evaluate_case(prop, case):
    """run the case and judge it for one property"""
    if 'ops' in case:
        from . import hcases
        return hcases.evaluate_case(prop, case)
    if 'attrs2' in case:
        return evaluate_rerun(prop, case)
    res = Result()
    stats = {}
    res.stats = stats
    res.extra_runs = 0
    if prop == 'C06':
        viols, run, run_b = twins.c06(case, stats)
        if run is None:
            res.violations, res.shape, res.nontrivial = [], 0, False
            res.run, res.vtime = None, 0.0
            return res
        res.extra_runs = 1
        res.violations = viols
        res.run = run_b
        res.shape = hash((shape(run), shape(run_b)))
        res.nontrivial = _nontrivial(prop, run, None, stats)
        res.vtime = run.loop_stats['vtime'] + run_b.loop_stats['vtime']
        _loop_stats(run_b, stats)
        return res
    if (prop == 'C10' and case['aux'].get('twin') == 'flatten') or \
            (prop == 'C12' and case['aux'].get('twin') == 'permute'):
        fn = twins.c10c if prop == 'C10' else twins.c12p
        viols, run, run_b = fn(case, stats)
        if run is None:
            res.violations, res.shape, res.nontrivial = [], 0, False
            res.run, res.vtime = None, 0.0
            return res
        res.extra_runs = 1
        res.violations = viols
        res.run = run
        res.shape = hash((shape(run), shape(run_b)))
        res.nontrivial = _nontrivial(prop, run, None, stats)
        res.vtime = run.loop_stats['vtime'] + run_b.loop_stats['vtime']
        _loop_stats(run, stats)
        return res
    run = run_spec(case['spec'], case['knobs'], case.get('choices'))
    if run.harness_error:
        raise RuntimeError(run.harness_error)
    res.run = run
    hist = History(run)
    fn = oracles.ORACLES[prop]
    if fn in (oracles.c01, oracles.c02, oracles.c03, oracles.c04):
        viols = fn(hist)
    else:
        viols = fn(hist, stats)
    if prop == 'C08':
        viols = viols + twins.c08b(case, run, hist, stats)
    # refinement against the reference model of the timed behaviour (exact
    # mode, runs that returned): mismatches are reported under the property
    # they belong to
    if prop in refmodel.MODEL_PROPS and not run.knobs['stall_den'] \
            and run.outcome in ('ret', 'exc'):
        pred = refmodel.predict(
            case['spec'], run.knobs['entry_timeout']
            if run.knobs.get('entry') == 'wait_for' else refmodel.INF)
        if pred is None:
            stats['model_undecided_tie_or_window'] = 1
        else:
            stats['model_judged'] = 1
            for mprop, clause, msg in refmodel.compare(hist, pred):
                if mprop == prop:
                    viols.append(oracles.Violation(prop, clause, 'refinement',
                                                   msg))
    if prop in ('C11', 'C13') and 'nested_cancelled_in:main-loop' not in stats:
        # the reach probes of the sweep are computed by c11's stats
        if prop == 'C13':
            oracles.c11(hist, stats)
    mech = case['aux'].get('sweep')
    if mech:
        for key in list(stats):
            if key.startswith('nested_cancelled_in:') or \
                    key == 'nested_never_started':
                stats['sweep:' + mech + ':' + key] = stats[key]
    _generic_stats(run, hist, stats)
    _loop_stats(run, stats)
    res.violations = viols
    res.shape = shape(run)
    res.nontrivial = _nontrivial(prop, run, hist, stats)
    res.vtime = run.loop_stats['vtime']
    return res


def _loop_stats(run, stats):
    ls = run.loop_stats
    stats['fault:same_instant_timer_groups_permuted'] = \
        stats.get('fault:same_instant_timer_groups_permuted', 0) + ls['ties']
    stats['fault:loop_stalls_injected'] = \
        stats.get('fault:loop_stalls_injected', 0) + ls['stalls']
    stats['loop_iterations'] = stats.get('loop_iterations', 0) + \
        ls['iterations']


# ---------------------------------------------------------------- engine API

def digest(res):
    from .digest import run_digest
    if hasattr(res, 'log'):
        from . import hcases
        return hcases.digest(res)
    return run_digest(res.run) if res.run is not None else None


def events(res):
    if hasattr(res, 'log'):
        from . import hcases
        return hcases.events(res)
    run = res.run
    if run is None:
        return []
    return [[s, t, k, n, p if isinstance(p, (str, type(None)))
             else type(p).__name__] for s, t, k, n, p in run.events]


def sample(seed, idx, case, res):
    from .driver import compact
    if 'ops' in case:
        from . import hcases
        return hcases.sample(seed, idx, case, res)
    run = res.run
    base = run.knobs['base']
    return {
        "seed": seed, "case_index": idx, "spec": compact(case['spec']),
        "knobs": case['knobs'], "aux": case['aux'],
        "outcome": [run.outcome, repr(run.value)[:80]],
        "history": ["%d t=%g %s %s %s" % (s, t - base, k, n,
                                           p if isinstance(p, str) else '')
                    for s, t, k, n, p in run.events[:40]],
        "violations": [v.as_dict() for v in res.violations][:3],
    }


def candidates(case):
    from .shrink import candidates as cands
    if 'ops' in case:
        from . import hcases
        return hcases.candidates(case)
    return cands(case)


def valid(prop, case):
    from .shrink import valid as ok
    if 'ops' in case:
        return bool(case['ops'])
    return ok(prop, case)


def pin(case, res):
    """replay the recorded schedule choices from now on"""
    if 'ops' in case:
        return None
    if case.get('choices') is None and res.run is not None:
        pinned = dict(case)
        pinned['choices'] = list(res.run.choices)
        return pinned
    return None


def case_size(case):
    import json
    return len(json.dumps(case.get('spec') or case.get('ops')))
