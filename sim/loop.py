"""
SimLoop: a virtual-time asyncio event loop with a seeded scheduler.

Real code: asyncio.Task/Future/Queue/wait/gather/sleep, Handle/TimerHandle,
BaseEventLoop.call_soon/call_at/run_forever/run_until_complete.
Stubbed here: the selector (none) and the clock (virtual).

Decisions taken by the seeded Chooser (and recorded, so that a run can be
replayed from the list alone):
  * order of timers that are due at the same virtual instant,
  * by how much the clock overshoots the next timer ("stall").
The ready queue is never permuted (call_soon is FIFO by contract).
"""

import asyncio
import heapq
import threading
from asyncio import events


class SimDeadlock(Exception):
    """ready queue empty, no timer armed, main future not done"""


class SimLivelock(Exception):
    """too many loop iterations without the clock advancing / in total"""


class SimHorizon(Exception):
    """virtual time went beyond the horizon"""


class Chooser:
    """
    Source of every scheduling decision. pick(k) returns an int in [0, k).
    * seeded mode: drawn from rng, recorded in .trace
    * replay mode: consumed by position from a list; when exhausted (or out of
      range after a shrink) the neutral default 0 is used.
    """

    def __init__(self, rng=None, replay=None):
        self.rng = rng
        self.replay = list(replay) if replay is not None else None
        self.pos = 0
        self.trace = []

    def pick(self, k):
        if k <= 1:
            return 0
        if self.replay is not None:
            if self.pos < len(self.replay):
                val = self.replay[self.pos]
                if not (isinstance(val, int) and 0 <= val < k):
                    val = 0
            else:
                val = 0
            self.pos += 1
        elif self.rng is not None:
            val = self.rng.randrange(k)
        else:
            val = 0
        self.trace.append(val)
        return val


class SimTimerHandle(events.TimerHandle):
    __slots__ = ['_sim_seq']


# stall amounts, on the 1/8 grid so that float arithmetic stays exact
STALLS = (0.125, 0.25, 0.375, 0.5, 1.0)


class SimLoop(asyncio.BaseEventLoop):

    def __init__(self, *, chooser=None, base_time=0.0,
                 tie_shuffle=True, stall_prob_den=0,
                 horizon=None, max_iter=400_000, max_zero_iter=20_000):
        super().__init__()
        self._now = float(base_time)
        self.base_time = float(base_time)
        self.chooser = chooser or Chooser()
        self.tie_shuffle = tie_shuffle
        # stall with probability 1/stall_prob_den at each clock advance; 0=never
        self.stall_prob_den = stall_prob_den
        self.horizon = horizon
        self.max_iter = max_iter
        self.max_zero_iter = max_zero_iter
        self.n_iter = 0
        self.n_zero_iter = 0
        self._timer_seq = 0
        self.on_quiescent = None        # callable or None
        self.drain_mode = False
        self.drain_until = None
        # statistics
        self.n_ties = 0                 # tie groups of size >= 2
        self.n_tie_timers = 0
        self.n_stalls = 0
        self.stall_total = 0.0
        self.n_advances = 0
        self.instants = [self._now]     # every instant the loop has been at
        self.sim_thread = threading.get_ident()

    # ---- clock
    def time(self):
        return self._now

    # ---- plumbing that the selector loops provide
    def _process_events(self, event_list):      # pragma: no cover
        pass

    def _write_to_self(self):
        pass

    def call_at(self, when, callback, *args, context=None):
        self._check_closed()
        timer = SimTimerHandle(when, callback, args, self, context)
        self._timer_seq += 1
        timer._sim_seq = self._timer_seq
        heapq.heappush(self._scheduled, timer)
        timer._scheduled = True
        return timer

    # ---- the scheduler
    def _run_once(self):
        self.n_iter += 1
        if self.n_iter > self.max_iter:
            raise SimLivelock("more than {} loop iterations".format(self.max_iter))

        sched = self._scheduled
        while sched and sched[0]._cancelled:
            self._timer_cancelled_count -= 1
            handle = heapq.heappop(sched)
            handle._scheduled = False

        if not self._ready and not self._stopping:
            # quiescent: all zero-time consequences of this instant happened
            if self.on_quiescent is not None:
                self.on_quiescent()
        # the quiescence callback is an observer; it must not schedule anything
        if not self._ready and not self._stopping:
            if not sched:
                if self.drain_mode:
                    self._stopping = True
                    return
                raise SimDeadlock(
                    "idle at t={} with no timer armed".format(self._now))
            when = sched[0]._when
            if when > self._now:
                target = when
                if self.stall_prob_den and \
                        self.chooser.pick(self.stall_prob_den) == 1:
                    stall = STALLS[self.chooser.pick(len(STALLS))]
                    target = when + stall
                    self.n_stalls += 1
                    self.stall_total += stall
                if self.drain_mode and self.drain_until is not None \
                        and target > self.drain_until:
                    self._stopping = True
                    return
                if self.horizon is not None and \
                        target - self.stall_total > self.horizon:
                    raise SimHorizon(
                        "virtual time {} beyond horizon {}"
                        .format(target, self.horizon))
                self._now = target
                self.n_advances += 1
                self.n_zero_iter = 0
                self.instants.append(target)

        # move due timers to the ready queue
        now = self._now
        if sched and sched[0]._when <= now:
            due = []
            while sched and sched[0]._when <= now:
                handle = heapq.heappop(sched)
                handle._scheduled = False
                if handle._cancelled:
                    self._timer_cancelled_count -= 1
                    continue
                due.append(handle)
            # neutral order: by deadline then by creation
            due.sort(key=lambda h: (h._when, h._sim_seq))
            i = 0
            n = len(due)
            while i < n:
                j = i + 1
                while j < n and due[j]._when == due[i]._when:
                    j += 1
                if j - i >= 2:
                    self.n_ties += 1
                    self.n_tie_timers += j - i
                    if self.tie_shuffle:
                        # Fisher-Yates driven by the chooser; all-zero picks
                        # leave the creation order unchanged
                        for a in range(i, j - 1):
                            b = a + self.chooser.pick(j - a)
                            if b != a:
                                due[a], due[b] = due[b], due[a]
                i = j
            self._ready.extend(due)

        self.n_zero_iter += 1
        if self.n_zero_iter > self.max_zero_iter:
            raise SimLivelock(
                "more than {} loop iterations at t={}"
                .format(self.max_zero_iter, self._now))

        ntodo = len(self._ready)
        for _ in range(ntodo):
            handle = self._ready.popleft()
            if handle._cancelled:
                continue
            handle._run()
        handle = None

    # ---- run the loop on, after the main future is over, until it is idle
    def drain(self, max_virtual=None):
        """
        Let the loop run until it has nothing ready and no timer (or until
        max_virtual seconds of virtual time passed). Returns True when the loop
        became idle, False when the bound was hit.
        """
        self.drain_mode = True
        self.drain_until = None if max_virtual is None \
            else self._now + max_virtual
        self.n_zero_iter = 0
        try:
            self.run_forever()
        finally:
            self.drain_mode = False
        live = [h for h in self._scheduled if not h._cancelled]
        return not self._ready and not live
