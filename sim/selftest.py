"""
Determinism self-test (part of setup_cmd): for every runtime property, N seeds
are evaluated twice in-process and once in a fresh interpreter under another
PYTHONHASHSEED, spread over worker processes; all digests must agree.
"""

import concurrent.futures as cf
import multiprocessing


def _one(prop, start, count):
    from .driver import determinism_check
    return prop, start, determinism_check(prop, range(start, start + count))


def selftest(n_total, jobs):
    from . import lib                                   # noqa: F401
    from .cases import RUNTIME_PROPS
    from .hcases import HISTORY_PROPS
    from .driver import seed_base
    RUNTIME_PROPS = tuple(RUNTIME_PROPS) + tuple(HISTORY_PROPS)
    per_prop = max(8, n_total // len(RUNTIME_PROPS))
    chunk = max(4, per_prop // 4)
    ctx = multiprocessing.get_context('fork')
    bad = 0
    done = 0
    for workers in (jobs, max(2, jobs // 3)):
        with cf.ProcessPoolExecutor(max_workers=workers,
                                    mp_context=ctx) as pool:
            futs = []
            for prop in RUNTIME_PROPS:
                base = seed_base(prop, 'quick', 7 if workers == jobs else 8)
                for off in range(0, per_prop, chunk):
                    futs.append(pool.submit(_one, prop, base + off, chunk))
            for fut in cf.as_completed(futs, timeout=1200):
                prop, start, (ok, detail) = fut.result()
                done += chunk
                if not ok:
                    bad += 1
                    print("DIVERGENCE {} from seed {}: {}".format(
                        prop, start, detail))
    print("selftest: {} seeds x 3 executions at 2 worker counts: {}".format(
        done, "all digests identical" if not bad else
        "%d divergent chunk(s)" % bad))
    return 2 if bad else 0
