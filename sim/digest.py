"""
Digests of runs: a SHA-256 of the full event log (determinism self-test, replay
files) and a cheap shape digest (distinct-case counting).
"""

import hashlib
import re

_ADDRESS = re.compile(r'0x[0-9a-fA-F]+')


def _payload(p):
    if p is None or isinstance(p, (str, int, float, bool)):
        return p
    return type(p).__name__


def canonical(run):
    """a string that describes everything observable about a run, with no
    memory address, task name or hash-order dependent part in it"""
    base = run.knobs["base"]
    lines = []
    for seq, t, kind, nid, payload in run.events:
        lines.append("%d %r %s %s %r" % (seq, t - base, kind, nid,
                                         _payload(payload)))
    lines.append("outcome %s %s" % (run.outcome, _val(run.value)))
    for nid in sorted(run.post):
        tup = run.post[nid]
        lines.append("post %s %s" % (nid, " ".join(_val(x) for x in tup)))
    for nid in sorted(run.post_sched):
        tup = run.post_sched[nid]
        lines.append("sched %s %s" % (nid, " ".join(_val(x) for x in tup)))
    lines.append("sd %s" % (_val(run.sd_value[1]) if run.sd_value else None))
    lines.append("pending %d drain %s" % (len(run.pending_at_return),
                                          run.drain_idle))
    lines.append("polls %d" % len(run.polls))
    for pseq, pt, snap in run.polls:
        lines.append("p %d %r %s" % (pseq, pt - base, " ".join(
            "%s:%s" % (nid, "".join(_flag(x) for x in snap[nid]))
            for nid in sorted(snap))))
    lines.append("choices %r" % (run.choices,))
    return "\n".join(lines)


def _flag(x):
    if x is True:
        return "T"
    if x is False:
        return "F"
    if x is None:
        return "N"
    return "o"


def _val(x):
    if x is None or isinstance(x, (bool, int, float, str)):
        return repr(x)
    if isinstance(x, BaseException):
        # (the message of an exception raised by asyncio itself may show an
        # object's address)
        return type(x).__name__ + ":" + _ADDRESS.sub('0x?', str(x))
    return type(x).__name__


def run_digest(run):
    return hashlib.sha256(canonical(run).encode()).hexdigest()


def shape(run):
    """structure of what happened: the sequence of (kind, node, payload, time)
    - distinct values are distinct interleavings of distinct scenarios"""
    base = run.knobs["base"]
    return hash(tuple((t - base, kind, nid, _payload(p))
                      for _, t, kind, nid, p in run.events))
