"""
Reference model of the graph / construction API (engine B). Plain Python over
names (strings); written from the documentation (README, docstrings), shares no
code with the library.

State:
  kind[name]     'job' | 'sched' | 'pure' | 'seq'
  req[name]      set of names            (jobs and nestable schedulers)
  forever[name]  bool
  members[s]     set of names            (schedulers)
  seq[q]         list of names           (sequences, flattened)
  seq_sched[q]   scheduler name or None
  seq_req[q]     requirement names given to the sequence before it had a job
"""


class ModelError(Exception):
    def __init__(self, kind, msg=""):
        super().__init__(kind + " " + msg)
        self.kind = kind


class Model:

    def __init__(self):
        self.kind = {}
        self.req = {}
        self.forever = {}
        self.members = {}
        self.seq = {}
        self.seq_sched = {}
        self.seq_req = {}

    # ------------------------------------------------------------ arguments
    def flatten_req(self, arg, out=None):
        """ARG -> ordered list of job names it stands for (a sequence stands
        for its last job, an empty one for nothing, None is ignored)"""
        if out is None:
            out = []
        t = arg['t']
        if t == 'none':
            pass
        elif t == 'ref':
            name = arg['name']
            if self.kind[name] == 'seq':
                if self.seq[name]:
                    out.append(self.seq[name][-1])
            else:
                out.append(name)
        else:
            for item in arg['items']:
                self.flatten_req(item, out)
        return out

    def flatten_jobs(self, items):
        """items of a Sequence()/append()/add()/update(): ordered jobs"""
        out = []
        for arg in items:
            if arg['t'] == 'none':
                continue
            name = arg['name']
            if self.kind[name] == 'seq':
                out += self.seq[name]
            else:
                out.append(name)
        return out

    # ------------------------------------------------------------ construction
    def requires(self, job, arg, remove=False):
        for name in self.flatten_req(arg):
            if remove:
                if name not in self.req[job]:
                    raise ModelError('KeyError', name)
                self.req[job].discard(name)
            elif name != job:
                self.req[job].add(name)

    def new_job(self, name, forever, required, scheduler):
        self.kind[name] = 'job'
        self.req[name] = set()
        self.forever[name] = forever
        if required is not None:
            self.requires(name, required)
        if scheduler is not None:
            self.members[scheduler].add(name)

    def new_sched(self, name, pure, items, forever, required, scheduler):
        self.kind[name] = 'pure' if pure else 'sched'
        self.members[name] = set(self.flatten_jobs(items))
        if not pure:
            self.req[name] = set()
            self.forever[name] = forever
            if required is not None:
                self.requires(name, required)
            if scheduler is not None:
                self.members[scheduler].add(name)

    def new_seq(self, name, items, required, scheduler):
        jobs = self.flatten_jobs(items)
        self.kind[name] = 'seq'
        self.seq[name] = list(jobs)
        self.seq_sched[name] = scheduler
        self.seq_req[name] = []
        for first, second in zip(jobs, jobs[1:]):
            if first != second:
                self.req[second].add(first)
        if required is not None:
            if jobs:
                self.requires(jobs[0], required)
            else:
                # documented: required= goes to the first job of the sequence
                self.seq_req[name] = self.flatten_req(required)
        if scheduler is not None:
            self.members[scheduler].update(jobs)

    def append(self, name, items):
        new = self.flatten_jobs(items)
        if not new:
            return
        jobs = self.seq[name]
        chain = ([jobs[-1]] if jobs else []) + new
        for first, second in zip(chain, chain[1:]):
            if first != second:
                self.req[second].add(first)
        if not jobs and self.seq_req[name]:
            for r in self.seq_req[name]:
                if r != new[0]:
                    self.req[new[0]].add(r)
            self.seq_req[name] = []
        self.seq[name] = jobs + new
        if self.seq_sched[name] is not None:
            self.members[self.seq_sched[name]].update(new)

    def seq_requires(self, name, arg):
        if self.seq[name]:
            self.requires(self.seq[name][0], arg)

    def add(self, sched, items):
        self.members[sched].update(self.flatten_jobs(items))

    def remove(self, sched, job):
        if job not in self.members[sched]:
            raise ModelError('KeyError', job)
        self.members[sched].discard(job)

    # ------------------------------------------------------------ sanitize
    def sanitize(self, sched):
        """returns True iff nothing had to be removed anywhere in the tree"""
        fine = True
        for job in sorted(self.members[sched]):
            kept = self.req[job] & self.members[sched]
            if kept != self.req[job]:
                fine = False
                self.req[job] = kept
            if self.kind[job] == 'sched':
                if not self.sanitize(job):
                    fine = False
        return fine

    # ------------------------------------------------------------ queries
    def preds(self, sched, starts):
        out = set()
        for s in starts:
            out |= self.req[s] & self.members[sched]
        return out

    def succs(self, sched, starts):
        return {j for j in self.members[sched]
                if any(s in self.req[j] for s in starts)}

    def closure(self, step, sched, starts):
        seen = set(step(sched, starts))
        todo = list(seen)
        while todo:
            cur = todo.pop()
            for nxt in step(sched, [cur]):
                if nxt not in seen:
                    seen.add(nxt)
                    todo.append(nxt)
        return seen

    def upstream(self, sched, starts):
        return self.closure(self.preds, sched, starts)

    def downstream(self, sched, starts):
        return self.closure(self.succs, sched, starts)

    def entries(self, sched):
        return {j for j in self.members[sched] if not self.req[j]}

    def exits(self, sched, discard_forever):
        out = set()
        for j in self.members[sched]:
            if discard_forever and self.forever[j]:
                continue
            if not any(j in self.req[k] for k in self.members[sched]):
                out.add(j)
        return out

    def tree_jobs(self, sched, scan_schedulers):
        """multiset (list) of what iterate_jobs must visit"""
        out = [sched] if scan_schedulers else []
        for j in self.members[sched]:
            if self.kind[j] == 'sched':
                out += self.tree_jobs(j, scan_schedulers)
            else:
                out.append(j)
        return out

    # ------------------------------------------------------------ structure
    def closed(self, sched, deep=True):
        for j in self.members[sched]:
            if not self.req[j] <= self.members[sched]:
                return False
            if deep and self.kind[j] == 'sched' and not self.closed(j):
                return False
        return True

    def acyclic_here(self, sched):
        members = self.members[sched]
        state = {}

        def visit(j):
            state[j] = 1
            for r in self.req[j] & members:
                if state.get(r) == 1:
                    return False
                if r not in state and not visit(r):
                    return False
            state[j] = 2
            return True
        for j in sorted(members):
            if j not in state and not visit(j):
                return False
        return True

    def acyclic(self, sched, deep):
        if not self.acyclic_here(sched):
            return False
        if deep:
            for j in self.members[sched]:
                if self.kind[j] == 'sched' and not self.acyclic(j, True):
                    return False
        return True

    def order_relation(self, sched):
        """strict must-run-before relation among members: set of (a, b)"""
        rel = set()
        for j in self.members[sched]:
            for up in self.upstream(sched, [j]):
                rel.add((up, j))
        return rel

    # ------------------------------------------------------------ surgery
    def bypass(self, sched, job):
        if job not in self.members[sched]:
            raise ModelError('ValueError', job)
        ups = set(self.req[job])
        for down in self.members[sched]:
            if job in self.req[down]:
                self.req[down].discard(job)
                self.req[down] |= ups - {down}
        self.members[sched].discard(job)

    def keep_only(self, sched, remains):
        self.members[sched] &= set(remains)
        self.sanitize(sched)

    def keep_only_between(self, sched, starts, ends, keep_starts, keep_ends):
        members = self.members[sched]
        down = self.downstream(sched, starts) if starts else set(members)
        up = self.upstream(sched, ends) if ends else set(members)
        kept = down & up
        if keep_starts:
            kept |= set(starts)
        if keep_ends:
            kept |= set(ends)
        self.members[sched] = kept
        self.sanitize(sched)
