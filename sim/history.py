"""
Derive, from the event log of one run, the per-node and per-scheduler-run facts
that the oracles are stated on. Nothing here looks inside the library.
"""

import bisect

from . import spec as S

INF = float('inf')


class NodeH:
    """what happened to one node (atomic job or nested scheduler as a job)"""
    __slots__ = ('nid', 'spec', 'parent', 'is_sched', 'enters', 'exits',
                 'cancel_seen', 'cancel_again', 'cancel_req', 'sd_enter',
                 'sd_exit',
                 'sd_cancel', 'sdrun_begin', 'sdrun_end')

    def __init__(self, spec, parent):
        self.nid = spec['id']
        self.spec = spec
        self.parent = parent            # spec of the enclosing scheduler
        self.is_sched = S.is_sched(spec)
        self.enters = []                # (seq, t)
        self.exits = []                 # (seq, t, kind) kind: ret|exc|cancelled
        self.cancel_seen = []           # (seq, t)
        self.cancel_again = []
        self.cancel_req = []            # (seq, t) task.cancel() on its task
        self.sd_enter = []
        self.sd_exit = []
        self.sd_cancel = []
        self.sdrun_begin = []           # schedulers only
        self.sdrun_end = []             # (seq, t, payload)

    @property
    def enter(self):
        return self.enters[0] if self.enters else None

    @property
    def exit(self):
        return self.exits[0] if self.exits else None

    def finished(self):
        """(seq, t) of the ret|exc exit, or None"""
        for seq, t, kind in self.exits:
            if kind in ('ret', 'exc'):
                return (seq, t)
        return None

    def ended(self):
        """(seq, t) at which the body was over for the purpose of counting
        completions: returned, raised, or ended with a CancelledError of its
        own making"""
        for seq, t, kind in self.exits:
            if kind in ('ret', 'exc', 'scancel'):
                return (seq, t)
        return None

    def active_at(self, seq):
        """entered at or before seq and not exited at or before seq"""
        n_in = sum(1 for s, _ in self.enters if s <= seq)
        n_out = sum(1 for s, _, _ in self.exits if s <= seq)
        return n_in > n_out


class History:

    def __init__(self, run):
        self.run = run
        self.top = run.spec
        self.events = run.events
        self.instants = run.instants
        self.nodes = {}
        self.parents = {}
        for node, parent, _ in S.walk(self.top):
            self.nodes[node['id']] = NodeH(node, parent)
            self.parents[node['id']] = parent
        self.seq_returned = run.seq_returned
        # a re-run case: only the second run is looked at
        self.rerun = getattr(run, 'seq_rerun', None)
        self.stray = []
        for seq, t, kind, nid, payload in self.events:
            if kind == 'mark':
                continue
            if self.rerun is not None and seq <= self.rerun:
                continue
            if nid not in self.nodes and self.rerun is not None:
                self.stray.append((nid, seq, t))   # removed before this run
                continue
            h = self.nodes[nid]
            if kind in ('enter', 'run_begin'):
                h.enters.append((seq, t))
            elif kind == 'exit':
                h.exits.append((seq, t, payload))
            elif kind == 'over':
                k = payload if payload in ('cancelled', 'exc') else 'ret'
                h.exits.append((seq, t, k))
            elif kind == 'cancel_seen':
                h.cancel_seen.append((seq, t))
            elif kind == 'cancel_again':
                h.cancel_again.append((seq, t))
            elif kind == 'cancel_req':
                h.cancel_req.append((seq, t))
            elif kind == 'sd_enter':
                h.sd_enter.append((seq, t))
            elif kind == 'sd_exit':
                h.sd_exit.append((seq, t))
            elif kind == 'sd_cancel':
                h.sd_cancel.append((seq, t))
            elif kind == 'sdrun_begin':
                h.sdrun_begin.append((seq, t))
            elif kind == 'sdrun_end':
                h.sdrun_end.append((seq, t, payload))
        self._sr = {}

    # ---- time helpers
    def snap(self, t):
        """first instant of the loop >= t (identity without stalls);
        None when the loop never got that far"""
        i = bisect.bisect_left(self.instants, t)
        if i == len(self.instants):
            return None
        return self.instants[i]

    def subtree_ids(self, nid, include_self=False):
        out = []
        for node, _, _ in S.walk(self.nodes[nid].spec):
            if node['id'] == nid and not include_self:
                continue
            out.append(node['id'])
        return out

    def sched_ids(self):
        return [nid for nid, h in self.nodes.items() if h.is_sched]

    def sr(self, nid):
        if nid not in self._sr:
            self._sr[nid] = SchedRun(self, nid)
        return self._sr[nid]


class SchedRun:
    """facts about the (single) run of one scheduler"""

    def __init__(self, hist, nid):
        self.hist = hist
        self.nid = nid
        h = hist.nodes[nid]
        self.h = h
        spec = h.spec
        self.spec = spec
        self.members = [m['id'] for m in spec['members']]
        self.mh = [hist.nodes[m] for m in self.members]
        self.req = S.requirements(spec)
        self.begin = h.enter                      # (seq, t) or None
        self.over = h.exit                        # (seq, t, kind) or None
        self.value = None
        run = hist.run
        objs = run.ctx.objs.get(nid, {})
        if self.over is not None:
            if self.over[2] == 'ret':
                self.value = objs.get('ret')
            elif self.over[2] == 'exc':
                self.value = objs.get('exc')
        self.timeout = spec['timeout']
        self.window = spec['window'] or 0
        # --- candidate triggers
        self.crit = None        # (seq, t, mid) first critical raise
        for mh in self.mh:
            if not mh.spec['critical']:
                continue
            for seq, t, kind in mh.exits:
                if kind == 'exc' and (self.crit is None or seq < self.crit[0]):
                    self.crit = (seq, t, mh.nid)
        self.finite = [mh for mh in self.mh if not mh.spec['forever']]
        # members but no non-forever one: the statements about "the last
        # non-forever job" are vacuous; such runs are only judged for C03
        self.degenerate = bool(self.mh) and not self.finite
        self.fin = None         # (seq, t) when the last finite member finished
        if self.begin is not None:
            if not self.members:
                self.fin = self.begin
            elif self.finite:
                fins = [mh.ended() for mh in self.finite]
                if all(f is not None for f in fins):
                    self.fin = max(fins)
        self.exp_t = None
        if self.begin is not None and self.timeout is not None:
            self.exp_t = hist.snap(self.begin[1] + self.timeout)
            if self.exp_t is None:
                self.exp_t = INF
        # --- what the implementation reported
        post = run.post_sched.get(nid)
        self.fto = self.fc = self.why = None
        if post is not None and post[0] != 'error':
            self.fto, self.fc, self.why = post
        self.verdict = None     # 'success' | 'fail' | None
        self.cause = None       # 'timeout' | 'critical' | 'ambiguous' | None
        if self.over is not None and self.over[2] != 'cancelled':
            if self.over[2] == 'ret' and self.value is True:
                self.verdict = 'success'
            else:
                self.verdict = 'fail'
                if self.fto and not self.fc:
                    self.cause = 'timeout'
                elif self.fc and not self.fto:
                    self.cause = 'critical'
                else:
                    self.cause = 'ambiguous'
        self._close = False

    # the instant at which this run started closing (first trigger), and the
    # trigger kind as far as the history can tell
    def close_time(self):
        if self._close is not False:
            return self._close
        cands = []
        if self.crit is not None:
            cands.append(self.crit[1])
        if self.exp_t is not None:
            cands.append(self.exp_t)
        if self.fin is not None:
            cands.append(self.fin[1])
        parent = self.hist.parents[self.nid]
        if parent is not None:
            pc = self.hist.sr(parent['id']).close_time()
            if pc is not None:
                cands.append(pc)
        if parent is None and self.begin is not None and \
                self.hist.run.knobs.get('entry') == 'wait_for':
            ext = self.hist.snap(self.hist.run.t_begin
                                 + self.hist.run.knobs['entry_timeout'])
            if ext is not None:
                cands.append(ext)
        if self.over is not None:
            cands.append(self.over[1])
        self._close = min(cands) if cands else None
        return self._close

    def ended_by_itself(self):
        return self.over is not None and self.over[2] != 'cancelled'
