"""
Command line of the checks for the runtime properties (engine A):

    ./check C05 --tier quick|thorough [--jobs N] [--budget SECONDS]
    ./check C05 --replay replays/C05-....json
    ./check selftest [--n N]

exit 0: the property held on everything explored (KNOWN-FINDING lines possible)
exit 1: "VIOLATION property=<id> replay=<path>" printed
exit 2: harness error (determinism self-test failed, watchdog, exception in the
        harness) - never a verdict about the library
"""

import argparse
import concurrent.futures as cf
import faulthandler
import json
import multiprocessing
import os
import re
import subprocess
import sys
import time
import traceback

from . import clock

ROOT = os.path.dirname(os.path.dirname(os.path.abspath(__file__)))
PROP_IDS = ['C%02d' % i for i in range(1, 21)]

QUICK_SEEDS = {
    'C01': 150000, 'C02': 150000, 'C03': 150000, 'C04': 150000,
    'C05': 150000, 'C06': 100000, 'C07': 150000, 'C08': 60000,
    'C09': 150000, 'C10': 120000, 'C11': 40000, 'C12': 120000,
    'C13': 50000, 'C14': 100000,
    'C15': 100000, 'C16': 100000, 'C17': 100000, 'C18': 100000,
    'C19': 100000,
}
CHUNK = 250

COMPONENTS = {
    "real_code": [
        "asynciojobs (whole package, imported from the working tree)",
        "asyncio.Task/Future/Queue/wait/gather/sleep, Handle/TimerHandle, "
        "BaseEventLoop.call_soon/call_at/run_forever/run_until_complete"],
    "stubbed": [
        "event-loop selector and clock (SimLoop: virtual time, seeded order "
        "of same-instant timers, seeded stalls)",
        "time.time/time.monotonic (read the virtual clock + constant offset)",
        "job bodies and co_shutdown handlers (scripted workload jobs: the "
        "'clients')", "stdout (discarded)"],
}


def seed_base(prop, tier, verif_seed):
    idx = PROP_IDS.index(prop)
    return (verif_seed * 100 + idx) * 100_000_000 + \
        (50_000_000 if tier == 'thorough' else 0)


# ------------------------------------------------------------------ worker

def _init_worker():
    faulthandler.enable()


def engine_for(prop):
    from . import cases, hcases
    return hcases if prop in hcases.HISTORY_PROPS else cases


def work(prop, seed_start, count, max_keep=3):
    """evaluate `count` seeds; returns a picklable summary"""
    cases = engine_for(prop)
    out = {"evaluations": 0, "runs": 0, "seeds": count, "stats": {},
           "shapes": set(), "nontrivial_shapes": set(), "violations": {},
           "errors": [], "samples": [], "vtime": 0.0, "nontrivial": 0}
    faulthandler.dump_traceback_later(600, exit=True)
    try:
        for seed in range(seed_start, seed_start + count):
            try:
                for idx, case in enumerate(cases.gen_cases(prop, seed)):
                    res = cases.evaluate_case(prop, case)
                    out["evaluations"] += 1
                    out["runs"] += 1 + res.extra_runs
                    out["vtime"] += res.vtime
                    for key, val in res.stats.items():
                        out["stats"][key] = out["stats"].get(key, 0) + val
                    out["shapes"].add(res.shape)
                    if res.nontrivial:
                        out["nontrivial"] += 1
                        out["nontrivial_shapes"].add(res.shape)
                        if len(out["samples"]) < 2 and res.run is not None:
                            out["samples"].append(
                                cases.sample(seed, idx, case, res))
                    for v in res.violations:
                        slot = out["violations"].setdefault(
                            v.sig, {"count": 0, "first": []})
                        slot["count"] += 1
                        if len(slot["first"]) < max_keep:
                            slot["first"].append({
                                "seed": seed, "index": idx, "case": case,
                                "violation": v.as_dict(),
                                "digest": cases.digest(res)})
            except Exception:                           # pylint: disable=W0703
                out["errors"].append(
                    "seed {}: {}".format(seed, traceback.format_exc()))
                if len(out["errors"]) > 5:
                    break
    finally:
        faulthandler.cancel_dump_traceback_later()
    return out


def compact(node):
    """one-line-per-node rendering of a spec"""
    from . import spec as S
    if S.is_sched(node):
        head = "{} {}{}{} win={} T={} sdT={} edges={}".format(
            node['id'], node['cls'], ' critical' if node['critical'] else '',
            ' forever' if node['forever'] else '', node['window'],
            node['timeout'], node['sd_timeout'], node['edges'])
        return {head: [compact(m) for m in node['members']]}
    return "{} {}{}{} {} -> {}{}{}".format(
        node['id'], node['cls'], ' critical' if node['critical'] else '',
        ' forever' if node['forever'] else '', node['script'],
        node['outcome'],
        ' cleanup=%s' % node['cleanup'] if node['cleanup'] else '',
        ' handler=%s' % node['handler'] if node['handler'] else '')


# ------------------------------------------------------------------ determinism

def digests_for(prop, seeds):
    cases = engine_for(prop)
    out = []
    for seed in seeds:
        for case in cases.gen_cases(prop, seed):
            res = cases.evaluate_case(prop, case)
            out.append(cases.digest(res) or "-")
            break
    return out


def determinism_check(prop, seeds, fresh=True):
    """same seeds twice in-process, and once in a fresh interpreter with another
    PYTHONHASHSEED; returns (ok, detail)"""
    first = digests_for(prop, seeds)
    second = digests_for(prop, seeds)
    if first != second:
        bad = [s for s, a, b in zip(seeds, first, second) if a != b]
        return False, "in-process divergence on seeds {}".format(bad[:5])
    if fresh:
        env = dict(os.environ)
        env['PYTHONHASHSEED'] = '4242'
        env['VERIF_NO_REEXEC'] = '1'
        cmd = [sys.executable, '-B', os.path.join(ROOT, 'check'), 'digests',
               prop, json.dumps(list(seeds))]
        proc = subprocess.run(cmd, env=env, capture_output=True, text=True,
                              timeout=300, cwd=ROOT)
        if proc.returncode != 0:
            return False, "fresh interpreter failed: " + proc.stderr[-400:]
        third = json.loads(proc.stdout.strip().splitlines()[-1])
        if third != first:
            bad = [s for s, a, b in zip(seeds, first, third) if a != b]
            return False, "divergence under another PYTHONHASHSEED on seeds " \
                "{}".format(bad[:5])
    return True, "{} seeds x (2 in-process + 1 fresh interpreter, other " \
        "PYTHONHASHSEED): identical digests".format(len(seeds))


# ------------------------------------------------------------------ known findings

def corpus_files(prop):
    import glob
    out = []
    for sub in ('findings', 'corpus'):
        for path in sorted(glob.glob(os.path.join(ROOT, sub, '*.json'))):
            try:
                if json.load(open(path)).get("property") == prop:
                    out.append(path)
            except Exception:                           # pylint: disable=W0703
                pass
    return out


def load_known():
    path = os.path.join(ROOT, 'KNOWN_FINDINGS.txt')
    known = []
    if not os.path.exists(path):
        return known
    for line in open(path):
        line = line.strip()
        m = re.match(r'known:\s+property=(\S+)\s+sig=(\S+)\s+(.*)', line)
        if m:
            known.append({"property": m.group(1), "sig": m.group(2),
                          "text": m.group(3)})
    return known


# ------------------------------------------------------------------ replay

def slug(text):
    return re.sub(r'[^A-Za-z0-9]+', '-', text).strip('-')[:60]


def write_replay(prop, entry, minimised, spent, tier):
    cases = engine_for(prop)
    res = cases.evaluate_case(prop, minimised)
    viol = None
    for v in res.violations:
        if v.clause == entry["violation"]["clause"]:
            viol = v
            break
    if viol is None:                                    # pragma: no cover
        viol_d = entry["violation"]
    else:
        viol_d = viol.as_dict()
    doc = {
        "property": prop, "clause": viol_d["clause"], "site": viol_d["site"],
        "msg": viol_d["msg"], "seed": entry["seed"],
        "case_index": entry["index"], "tier": tier,
        "minimisation_runs": spent,
        "case": minimised,
        "digest": cases.digest(res),
        "original_case": entry["case"],
        "events": cases.events(res),
        "how_to_replay": "./check {} --replay <this file>".format(prop),
    }
    os.makedirs(os.path.join(ROOT, 'replays'), exist_ok=True)
    # the pid keeps concurrent runs of the same check (e.g. against different
    # VERIF_REPO trees) from overwriting each other's replay files
    name = "{}-{}-{}-{}-p{}.json".format(prop, entry["seed"],
                                         slug(viol_d["clause"]),
                                         slug(viol_d["site"]), os.getpid())
    path = os.path.join(ROOT, 'replays', name)
    with open(path, 'w') as out:
        json.dump(doc, out, indent=1)
    return path, doc


def replay(prop, path, quiet=False):
    """re-run a replay file; returns (reproduced, digest_matches, text)"""
    doc = json.load(open(path))
    prop = doc.get("property", prop)
    cases = engine_for(prop)
    res = cases.evaluate_case(prop, doc["case"])
    hit = [v for v in res.violations if v.clause == doc["clause"]]
    digest = cases.digest(res)
    same = digest == doc.get("digest")
    if not quiet:
        for v in res.violations:
            print("  ", v)
    return bool(hit), same, digest


def verify_replay_fresh(prop, path):
    env = dict(os.environ)
    env['PYTHONHASHSEED'] = '777'
    env['VERIF_NO_REEXEC'] = '1'
    cmd = [sys.executable, '-B', os.path.join(ROOT, 'check'), prop,
           '--replay', path]
    proc = subprocess.run(cmd, env=env, capture_output=True, text=True,
                          timeout=300, cwd=ROOT)
    ok = proc.returncode == 1 and 'REPRODUCED' in proc.stdout \
        and 'digest=same' in proc.stdout
    return ok, proc.stdout[-600:] + proc.stderr[-300:]


# ------------------------------------------------------------------ main

def run_check(prop, tier, jobs, budget, verif_seed):
    # the generators read this: the thorough tier also widens the bounds
    os.environ['VERIF_TIER_EFFECTIVE'] = tier
    from . import lib                                   # noqa: F401
    cases = engine_for(prop)
    t0 = clock.real_time()
    seed0 = seed_base(prop, tier, verif_seed)
    # --- determinism sample
    n_det = 24 if tier == 'quick' else 200
    ok, detail = determinism_check(prop, range(seed0, seed0 + n_det))
    if not ok:
        print("HARNESS-ERROR determinism: " + detail)
        return 2
    total = {"evaluations": 0, "runs": 0, "seeds": 0, "stats": {},
             "violations": {}, "errors": [], "samples": [], "vtime": 0.0,
             "nontrivial": 0}
    shapes, nt_shapes = set(), set()
    # --- regression corpus: the minimised scenarios of every defect found so
    # far (findings/) and of every seeded change caught so far (corpus/) are
    # re-judged first, with all the clauses of this property's oracle
    corpus = corpus_files(prop)
    for path in corpus:
        doc = json.load(open(path))
        try:
            res = cases.evaluate_case(prop, doc["case"])
        except Exception:                               # pylint: disable=W0703
            total["errors"].append("corpus {}: {}".format(
                path, traceback.format_exc()))
            continue
        total["evaluations"] += 1
        total["runs"] += 1 + res.extra_runs
        shapes.add(res.shape)
        for v in res.violations:
            slot = total["violations"].setdefault(
                v.sig, {"count": 0, "first": []})
            slot["count"] += 1
            slot["first"].append({
                "seed": -1, "index": 0, "case": doc["case"],
                "violation": v.as_dict(), "digest": cases.digest(res),
                "corpus": os.path.relpath(path, ROOT)})
    n_quick = int(QUICK_SEEDS[prop] *
                  float(os.environ.get('VERIF_QUICK_SCALE', '1')))
    ctx = multiprocessing.get_context('fork')
    next_seed = seed0
    deadline = t0 + budget if tier == 'thorough' else None
    with cf.ProcessPoolExecutor(max_workers=jobs, mp_context=ctx,
                                initializer=_init_worker) as pool:
        pending = set()

        def submit():
            nonlocal next_seed
            fut = pool.submit(work, prop, next_seed, CHUNK)
            next_seed += CHUNK
            pending.add(fut)

        def more():
            if tier == 'quick':
                return next_seed < seed0 + n_quick
            return clock.real_time() < deadline
        while more() and len(pending) < jobs * 2:
            submit()
        while pending:
            done, _ = cf.wait(pending, timeout=900,
                              return_when=cf.FIRST_COMPLETED)
            if not done:
                print("HARNESS-ERROR watchdog: no worker finished in 900 s")
                for fut in pending:
                    fut.cancel()
                return 2
            for fut in done:
                pending.discard(fut)
                try:
                    part = fut.result()
                except Exception:                       # pylint: disable=W0703
                    print("HARNESS-ERROR worker died: "
                          + traceback.format_exc()[-800:])
                    return 2
                for key in ("evaluations", "runs", "seeds", "vtime",
                            "nontrivial"):
                    total[key] += part[key]
                for key, val in part["stats"].items():
                    total["stats"][key] = total["stats"].get(key, 0) + val
                # distinct counting stops (conservatively) at 4M entries
                if len(shapes) < 4_000_000:
                    shapes |= part["shapes"]
                    nt_shapes |= part["nontrivial_shapes"]
                total["errors"] += part["errors"]
                if len(total["samples"]) < 4:
                    total["samples"] += part["samples"][:1]
                for sig, slot in part["violations"].items():
                    mine = total["violations"].setdefault(
                        sig, {"count": 0, "first": []})
                    mine["count"] += slot["count"]
                    mine["first"] = sorted(
                        mine["first"] + slot["first"],
                        key=lambda e: (cases.case_size(e["case"]),
                                       e["seed"]))[:3]
                # stop feeding once a new violation is known (quick exit)
                if more() and not total["errors"]:
                    submit()
    wall = clock.real_time() - t0
    if total["errors"]:
        print("HARNESS-ERROR {} exception(s) in the harness, first:\n{}"
              .format(len(total["errors"]), total["errors"][0]))
        return 2
    # --- violations: known or new
    known = [k for k in load_known() if k["property"] == prop]
    known_sigs = {k["sig"]: k for k in known}
    exit_code = 0
    reported = []
    for sig in sorted(total["violations"]):
        slot = total["violations"][sig]
        if sig in known_sigs:
            print("KNOWN-FINDING: property={} {} [sig={} seen {}x, e.g. seed "
                  "{}]".format(prop, known_sigs[sig]["text"], sig,
                               slot["count"], slot["first"][0]["seed"]))
            continue
        entry = slot["first"][0]
        clause = entry["violation"]["clause"]
        mini, spent = minimise_entry(prop, clause, entry)
        path, doc = write_replay(prop, entry, mini, spent, tier)
        ok, text = verify_replay_fresh(prop, path)
        reported.append({"sig": sig, "count": slot["count"], "replay": path,
                         "msg": doc["msg"], "replay_verified": ok})
        print("violation {} seen {}x; minimised in {} runs; {}".format(
            sig, slot["count"], spent, doc["msg"]))
        if not ok:
            print("HARNESS-ERROR replay of {} did not reproduce in a fresh "
                  "process:\n{}".format(path, text))
            exit_code = 2
            continue
        print("VIOLATION property={} replay={}".format(prop, path))
        if exit_code == 0:
            exit_code = 1
    write_evidence(prop, tier, verif_seed, seed0, next_seed, total,
                   len(shapes), len(nt_shapes), wall, detail, reported,
                   [k for k in known if k["sig"] in total["violations"]])
    print("{} {}: {} cases ({} runs) from {} seeds in {:.1f}s; {} distinct "
          "non-trivial; {} violation signature(s)".format(
              prop, tier, total["evaluations"], total["runs"], total["seeds"],
              wall, len(nt_shapes), len(total["violations"])))
    return exit_code


def minimise_entry(prop, clause, entry):
    from .shrink import minimise
    return minimise(prop, clause, entry["case"], engine_for(prop))


RULES = {
    'C01': "a run counts when at least one job with a requirement started",
    'C02': "a run counts when a scheduler with >= 2 jobs reported success",
    'C03': "a run counts when the tree is admissible and has a window, a "
           "timeout or a job that does not simply return",
    'C04': "a run counts when at least one scheduler run failed (timeout or "
           "critical)",
    'C05': "a run counts when a critical job raised while a sibling was "
           "active or queued",
    'C06': "a twin pair counts when it was judged (not skipped for a tie at a "
           "trigger or for time-dependent contention)",
    'C07': "a run counts when some window was full at some instant",
    'C08': "a run counts when a timeout actually expired and ended a run",
    'C09': "a run counts when a forever job was still active when the last "
           "regular job finished",
    'C10': "a run counts when a nested run failed (contained or propagated) "
           "or a nested/flattened twin pair was judged",
    'C11': "a run counts when an enclosing scheduler ended while a nested run "
           "was unfinished",
    'C12': "a run counts when a job with requirements started, or a job "
           "waited for a window slot",
    'C13': "a run counts when a shutdown phase followed a timeout/critical "
           "exit or cancelled a straggling handler",
    'C14': "a run counts when a job was seen scheduled-but-not-running at a "
           "quiescent point, or a job was cancelled",
    'C15': "a history counts when check_cycles() was asked about at least "
           "one cyclic closed scheduler",
    'C16': "a history counts when sanitize() was called on a tree that had a "
           "dangling requirement",
    'C17': "a history counts when a query with several start jobs was made",
    'C18': "a history counts when at least two surgery calls were applied one "
           "after another",
    'C19': "a history counts when it has at least 8 construction statements",
}


def write_evidence(prop, tier, verif_seed, seed0, seed_end, total, n_shapes,
                   n_nt, wall, det_detail, reported, known_hit):
    manifest_level = level_of(prop)
    stats = total["stats"]
    from .hcases import HISTORY_PROPS
    if prop in HISTORY_PROPS:
        return write_evidence_b(prop, tier, verif_seed, seed0, seed_end,
                                total, n_shapes, n_nt, wall, det_detail,
                                reported, known_hit, manifest_level)
    cov = {
        "evaluations": total["evaluations"],
        "distinct_nontrivial": n_nt,
        "rule": "cases are generated from consecutive seeds (swarm-style "
                "random scheduler trees, seeded schedule and faults; sweeps "
                "derive further cases from one seed); distinct = distinct "
                "digest of the full (virtual time, event, job) history; "
                "non-trivial: " + RULES[prop],
        "samples": total["samples"][:4],
        "simulated_runs": total["runs"],
        "seeds": {"first": seed0, "last": seed_end - 1,
                  "count": total["seeds"]},
        "runs_per_hour": int(total["runs"] / wall * 3600) if wall else 0,
        "simulated_seconds": total["vtime"],
        "nontrivial_cases": total["nontrivial"],
        "distinct_histories": n_shapes,
        "faults_fired": {k[6:]: v for k, v in sorted(stats.items())
                         if k.startswith('fault:')},
        "probes": {k: v for k, v in sorted(stats.items())
                   if not k.startswith('fault:')},
        "determinism": det_detail,
        "regression_corpus_replayed": len(corpus_files(prop)),
        "components": COMPONENTS,
        "violations_reported": reported,
        "known_findings_seen": known_hit,
        "exhaustive": False,
    }
    doc = {
        "property_id": prop, "tier": tier, "seed": verif_seed,
        "level": manifest_level, "coverage": cov,
        "assumptions": [
            "sampling, not proof: bounds are <= 14 atomic jobs, depth <= 3, "
            "durations on a 1/8 s grid",
            "only executions a standard asyncio loop can produce (FIFO ready "
            "queue); timers never fire early",
            "workload jobs honour cancellation (possibly after a slow cleanup, "
            "by raising or returning from the handler); co_shutdown handlers do "
            "not raise ordinary exceptions (documented as unspecified), they may "
            "end with a CancelledError of their own",
            "same-instant (loop-iteration level) orderings are resolved in "
            "favour of the library: only virtual-time differences and "
            "sequence orders that no scheduling choice can change are judged",
            "the SimLoop and the oracles are trusted (determinism self-test, "
            "seeded mutants in /verif/seeded)"],
        "wall_s": round(wall, 2),
        "violations": len(reported),
    }
    os.makedirs(os.path.join(ROOT, 'evidence'), exist_ok=True)
    path = os.path.join(ROOT, 'evidence', prop + '.json')
    with open(path, 'w') as out:
        json.dump(doc, out, indent=1, default=str)


def write_evidence_b(prop, tier, verif_seed, seed0, seed_end, total, n_shapes,
                     n_nt, wall, det_detail, reported, known_hit, level):
    stats = total["stats"]
    cov = {
        "evaluations": total["evaluations"],
        "distinct_nontrivial": n_nt,
        "rule": "one case = one seeded history of 5-30 graph/construction API "
                "calls (objects named, arguments arbitrarily nested) executed "
                "step by step against the library and against the reference "
                "model, under a seeded set iteration order; distinct = "
                "distinct (history text, outcome log); non-trivial: "
                + RULES[prop],
        "samples": total["samples"][:4],
        "seeds": {"first": seed0, "last": seed_end - 1,
                  "count": total["seeds"]},
        "histories_per_hour": int(total["evaluations"] / wall * 3600)
        if wall else 0,
        "api_calls_executed": stats.get("api_calls", 0),
        "simulated_seconds": 0.0,
        "nontrivial_cases": total["nontrivial"],
        "distinct_histories": n_shapes,
        "faults_fired": {"none": 0},
        "faults_note": "no fault dimension exists for this property: only "
                       "histories of calls and set iteration order are "
                       "explored (DESIGN.md section 6)",
        "probes": {k: v for k, v in sorted(stats.items())},
        "determinism": det_detail,
        "regression_corpus_replayed": len(corpus_files(prop)),
        "components": {
            "real_code": ["asynciojobs graph/construction API (Sequence, "
                          "requires, add/update/remove, sanitize, "
                          "check_cycles, topological_order, list, neighbour "
                          "queries, bypass_and_remove, keep_only*)",
                          "asyncio + SimLoop for the final run() of C19 "
                          "histories"],
            "stubbed": ["jobs are instantaneous scripted jobs with a seeded "
                        "__hash__ (controls set iteration order)",
                        "reference model: sim/hmodel.py"]},
        "violations_reported": reported,
        "known_findings_seen": known_hit,
        "exhaustive": False,
    }
    doc = {
        "property_id": prop, "tier": tier, "seed": verif_seed,
        "level": level, "coverage": cov,
        "assumptions": [
            "sampling, not enumeration: graphs of up to ~15 jobs, 3 levels",
            "the reference model (sim/hmodel.py) states the documented "
            "semantics correctly",
            "a job belongs to at most one scheduler (documented "
            "precondition); histories respect it"],
        "wall_s": round(wall, 2),
        "violations": len(reported),
    }
    os.makedirs(os.path.join(ROOT, 'evidence'), exist_ok=True)
    with open(os.path.join(ROOT, 'evidence', prop + '.json'), 'w') as out:
        json.dump(doc, out, indent=1, default=str)


def level_of(prop):
    try:
        man = json.load(open(os.path.join(ROOT, 'MANIFEST.json')))
        for chk in man["checks"]:
            if chk["property_id"] == prop:
                return chk["level_claimed"]["category"]
    except Exception:                                   # pylint: disable=W0703
        pass
    return "exploration"


def main(argv=None):
    argv = list(sys.argv[1:] if argv is None else argv)
    if os.environ.get('PYTHONHASHSEED') != '0' and \
            not os.environ.get('VERIF_NO_REEXEC'):
        env = dict(os.environ)
        env['PYTHONHASHSEED'] = '0'
        os.execve(sys.executable, [sys.executable, '-B',
                                   os.path.join(ROOT, 'check')] + argv, env)
    if argv and argv[0] == 'digests':
        from . import lib                               # noqa: F401
        print(json.dumps(digests_for(argv[1], json.loads(argv[2]))))
        return 0
    parser = argparse.ArgumentParser()
    parser.add_argument('prop')
    parser.add_argument('--tier', default=os.environ.get('VERIF_TIER',
                                                         'quick'))
    parser.add_argument('--jobs', type=int,
                        default=int(os.environ.get('VERIF_JOBS', '16')))
    parser.add_argument('--budget', type=float,
                        default=float(os.environ.get('VERIF_BUDGET', '480')))
    parser.add_argument('--seed', type=int,
                        default=int(os.environ.get('VERIF_SEED', '0') or 0))
    parser.add_argument('--replay')
    parser.add_argument('--n', type=int, default=2000)
    args = parser.parse_args(argv)
    if args.prop == 'selftest':
        from .selftest import selftest
        return selftest(args.n, args.jobs)
    from . import engines
    return engines.dispatch(args)


def dispatch_runtime(args):
    prop = args.prop
    if args.replay:
        from . import lib                               # noqa: F401
        hit, same, digest = replay(prop, args.replay)
        if hit:
            print("REPRODUCED property={} digest={} ({})".format(
                prop, "same" if same else "DIFFERENT", digest))
            print("VIOLATION property={} replay={}".format(prop, args.replay))
            return 1
        print("NOT-REPRODUCED property={} digest={}".format(
            prop, "same" if same else "different"))
        return 0
    return run_check(prop, args.tier, args.jobs, args.budget, args.seed)
