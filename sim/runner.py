"""
Run one scenario on a fresh SimLoop and collect everything the oracles need.
"""

import asyncio
import contextlib
import os
import signal
import threading
import warnings
import random

from . import clock
from . import spec as S
from .lib import AbstractJob, PureScheduler
from .loop import (SimLoop, Chooser, SimDeadlock, SimLivelock, SimHorizon)
from .workload import Ctx, make_task_factory


class _Null:
    encoding = 'utf-8'

    def write(self, _):
        return 0

    def flush(self):
        pass


_NULL = _Null()
NOTDONE = "<not-done>"


class Run:
    """result of one simulated execution"""
    __slots__ = ('spec', 'knobs', 'ctx', 'top', 'outcome', 'value', 't_begin',
                 't_end', 'post', 'post_sched', 'sd_value', 'pending_at_return',
                 'drain_idle', 'loop_stats', 'choices', 'seq_returned',
                 'seq_shutdown', 'seq_drained', 'harness_error', 'events',
                 'polls', 'instants', 'post2', 'seq_rerun')


def _hung(_signum, _frame):
    # a callback of the loop that never returns (a spin that never yields)
    # is out of reach of the loop's iteration caps: no verdict, no exit 0
    os.write(2, b"HARNESS: one simulated run did not return within 60 s of "
                b"wall time (a callback that never yields to the loop?); "
                b"aborting without a verdict\n")
    os._exit(3)


def _watchdog(seconds):
    if threading.current_thread() is threading.main_thread():
        if seconds:
            signal.signal(signal.SIGALRM, _hung)
        signal.alarm(seconds)


@contextlib.contextmanager
def _strict_warnings(knobs):
    """environment fault: the application runs with warnings turned into
    errors (python -W error, pytest filterwarnings=error) - here only for
    warnings issued from the package's own modules, so that nothing asyncio
    or the simulator may emit is involved. The package emits none on the
    unchanged tree; one added on a path the run goes through must not change
    what the run does."""
    if not knobs.get("strict_warnings"):
        yield
        return
    with warnings.catch_warnings():
        warnings.filterwarnings('error', module=r'asynciojobs(\..*)?$')
        yield


def default_knobs(seed=0):
    return {"salt": seed, "base": 1000.0, "wall_offset": 1_700_000_000,
            "tie_shuffle": True, "stall_den": 0, "entry": "run",
            "sched_seed": seed}


def poll_nodes(ctx, top):
    snap = {}
    for nid, node in ctx.nodes.items():
        if node is top or not isinstance(node, AbstractJob):
            continue
        try:
            done = node.is_done()
            exc = node.raised_exception()
            if done:
                res = node.result()
            else:
                res = NOTDONE
            snap[nid] = (node.is_idle(), node.is_scheduled(),
                         node.is_running(), done, exc, res)
        except Exception as err:                        # pylint: disable=W0703
            snap[nid] = ('error', repr(err))
    return snap


def run_spec(spec, knobs, choices=None, poll=True, drain_virtual=40.0,
             attrs2=None, spec2=None):
    """
    spec: the top-level sched dict; knobs: see default_knobs();
    choices: None (seeded from knobs['sched_seed']) or a list to replay.
    """
    run = Run()
    run.spec, run.knobs = spec, knobs
    _watchdog(60)
    run.harness_error = None
    if choices is None:
        chooser = Chooser(rng=random.Random(knobs["sched_seed"]))
    else:
        chooser = Chooser(replay=choices)
    base = float(knobs["base"])
    loop = SimLoop(chooser=chooser, base_time=base,
                   tie_shuffle=knobs["tie_shuffle"],
                   stall_prob_den=knobs["stall_den"],
                   horizon=base + S.horizon(spec))
    ctx = Ctx(loop, knobs["salt"])
    run.ctx = ctx
    loop.set_task_factory(make_task_factory(ctx))
    loop.set_exception_handler(
        lambda _loop, context: ctx.loop_errors.append(
            str(context.get('message')) + " | "
            + repr(context.get('exception'))))
    asyncio.set_event_loop(loop)
    jump = knobs.get("wall_jump")
    if jump:
        jump = (base + jump[0], jump[1])
    clock.activate(loop, knobs["wall_offset"], jump)
    run.outcome, run.value = None, None
    run.post, run.post_sched, run.sd_value = {}, {}, None
    run.pending_at_return, run.drain_idle = [], None
    run.seq_returned = run.seq_shutdown = run.seq_drained = None
    run.seq_rerun = None
    try:
        with contextlib.redirect_stdout(_NULL), _strict_warnings(knobs):
            top = S.build(spec, ctx)
            run.top = top
            if poll:
                def on_quiescent():
                    ctx.polls.append((ctx.seq, loop._now,
                                      poll_nodes(ctx, top)))
                loop.on_quiescent = on_quiescent
            run.t_begin = loop._now
            noise = None
            if knobs.get("noise"):
                # an unrelated application task ticking on the same grid: its
                # timers tie with the jobs' and the scheduler's own timers
                async def ticker(period):
                    while True:
                        await asyncio.sleep(period)
                noise = loop.create_task(ticker(knobs["noise"]))
                ctx.tasks.remove(noise)
            try:
                if attrs2 is not None:
                    # a first run of the same objects; then the documented
                    # attributes are re-assigned and the tree is run again:
                    # only that second run is judged
                    loop0 = None
                    if knobs.get("first_run_other_loop"):
                        # ... in an event loop of its own, closed afterwards:
                        # nothing the first run leaves in the objects may be
                        # tied to that loop
                        loop0 = SimLoop(chooser=chooser, base_time=base,
                                        tie_shuffle=knobs["tie_shuffle"],
                                        stall_prob_den=knobs["stall_den"],
                                        horizon=base + S.horizon(spec))
                        loop0.set_task_factory(make_task_factory(ctx))
                        loop0.set_exception_handler(lambda _l, _c: None)
                        ctx.loop = loop0
                        asyncio.set_event_loop(loop0)
                        clock.activate(loop0, knobs["wall_offset"], jump)
                    try:
                        top.run()
                    except (SimDeadlock, SimLivelock, SimHorizon,
                            KeyboardInterrupt, SystemExit, GeneratorExit):
                        raise
                    except BaseException:               # pylint: disable=W0703
                        pass
                    finally:
                        if loop0 is not None:
                            left = [t for t in ctx.tasks if not t.done()]
                            for task in left:
                                task.cancel()
                            try:
                                loop0.horizon = None
                                if left:
                                    loop0.drain(10.0)
                            except SimLivelock:
                                pass
                            loop0.close()
                            ctx.loop = loop
                            asyncio.set_event_loop(loop)
                            clock.activate(loop, knobs["wall_offset"], jump)
                    ctx.log('mark', 'top', 'rerun')
                    run.seq_rerun = ctx.seq
                    for nid, attrs in attrs2.items():
                        node = ctx.nodes.get(nid)
                        if node is not None:
                            # (an attribute that keeps its value is left
                            # alone: what the first run did to it stays)
                            if attrs['window'] != node.spec['window']:
                                node.jobs_window = attrs['window']
                            if attrs['timeout'] != node.spec['timeout']:
                                node.timeout = attrs['timeout']
                            for mid in attrs.get('drop') or ():
                                member = ctx.nodes.get(mid)
                                if member is not None and \
                                        ctx.parent_of.get(mid) == nid:
                                    node.remove(member)
                            for jspec in attrs.get('new') or ():
                                from .workload import SimJob
                                ctx.parent_of[jspec['id']] = nid
                                node.add(SimJob(
                                    ctx, jspec, forever=jspec['forever'],
                                    critical=jspec['critical']
                                    != bool(jspec.get('crit_method'))))
                    run.t_begin = loop._now
                    # (spec2: the tree as it is for the second run)
                    loop.horizon = loop._now + S.horizon(spec2 or spec)
                if knobs["entry"] == "run":
                    run.value = top.run()
                elif knobs["entry"] == "orchestrate":
                    run.value = top.orchestrate()       # documented alias
                elif knobs["entry"] == "wait_for":
                    # the application bounds the whole run from outside
                    async def bounded():
                        return await asyncio.wait_for(
                            top.co_run(), knobs["entry_timeout"])
                    run.value = loop.run_until_complete(bounded())
                else:
                    async def main():
                        return await top.co_run()
                    run.value = loop.run_until_complete(main())
                run.outcome = 'ret'
            except SimDeadlock as exc:
                run.outcome, run.value = 'deadlock', str(exc)
            except SimLivelock as exc:
                run.outcome, run.value = 'livelock', str(exc)
            except SimHorizon as exc:
                run.outcome, run.value = 'horizon', str(exc)
            except asyncio.CancelledError as exc:
                run.outcome, run.value = 'exc', exc
            except (KeyboardInterrupt, SystemExit, GeneratorExit):
                raise
            except BaseException as exc:                # pylint: disable=W0703
                run.outcome, run.value = 'exc', exc
            run.t_end = loop._now
            loop.on_quiescent = None
            if noise is not None:
                noise.cancel()
            ctx.log('mark', 'top', 'returned')
            run.seq_returned = ctx.seq
            run.pending_at_return = [t for t in ctx.tasks if not t.done()]
            # observations right after the run
            run.post = poll_nodes(ctx, top)
            for nid, node in ctx.nodes.items():
                if isinstance(node, PureScheduler):
                    try:
                        run.post_sched[nid] = (node.failed_time_out(),
                                               node.failed_critical(),
                                               node.why())
                    except Exception as err:            # pylint: disable=W0703
                        run.post_sched[nid] = ('error', repr(err))
            run.post2 = None
            if run.outcome in ('ret', 'exc'):
                # read-only inspection of the whole tree after the run: what the
                # predicates say must not change
                try:
                    for node in ctx.nodes.values():
                        if isinstance(node, PureScheduler):
                            list(node.exit_jobs())
                            list(node.entry_jobs())
                            node.check_cycles()
                            node.stats()
                    top.list()
                    run.post2 = poll_nodes(ctx, top)
                except Exception as err:                # pylint: disable=W0703
                    run.post2 = {'__error__': ('error', repr(err))}
            if run.outcome in ('ret', 'exc'):
                # a later explicit shutdown must send nothing more
                try:
                    if knobs.get("sync_shutdown"):
                        run.sd_value = ('ret', top.shutdown())
                    else:
                        run.sd_value = ('ret', loop.run_until_complete(
                            top.co_shutdown()))
                except (SimDeadlock, SimLivelock, SimHorizon) as exc:
                    run.sd_value = ('stuck', str(exc))
                except Exception as exc:                # pylint: disable=W0703
                    run.sd_value = ('exc', exc)
                ctx.log('mark', 'top', 'shutdown_done')
                run.seq_shutdown = ctx.seq
                # let the loop run on
                loop.horizon = None
                try:
                    run.drain_idle = loop.drain(drain_virtual)
                except SimLivelock:
                    run.drain_idle = False
                ctx.log('mark', 'top', 'drained')
                run.seq_drained = ctx.seq
            # leave the process clean: cancel leftovers and let them finish
            loop.horizon = None
            leftovers = [t for t in ctx.tasks if not t.done()]
            for task in leftovers:
                task.cancel()
            if leftovers:
                try:
                    loop.max_iter += 10_000
                    loop.drain(10.0)
                except SimLivelock:
                    pass
    except Exception as exc:                            # pylint: disable=W0703
        import traceback
        run.harness_error = traceback.format_exc()
    finally:
        # coroutine objects handed to Job() that were never awaited: close
        # them here rather than at interpreter shutdown
        for node in ctx.nodes.values():
            for attr in ('corun', 'coshutdown'):
                coro = getattr(node, attr, None)
                if coro is not None and hasattr(coro, 'close'):
                    try:
                        coro.close()
                    except Exception:                   # pylint: disable=W0703
                        pass
        _watchdog(0)
        clock.deactivate()
        asyncio.set_event_loop(None)
        run.loop_stats = {
            "iterations": loop.n_iter, "advances": loop.n_advances,
            "ties": loop.n_ties, "tie_timers": loop.n_tie_timers,
            "stalls": loop.n_stalls, "vtime": loop._now - base,
        }
        run.instants = loop.instants
        run.choices = chooser.trace
        try:
            loop.close()
        except Exception:                               # pylint: disable=W0703
            pass
    run.events = ctx.events
    run.polls = ctx.polls
    return run
