"""
Import the library under test from VERIF_REPO (default /repo), by path, with the
clock seam installed first. No bytecode is written into the repository.
"""

import os
import sys
import warnings

sys.dont_write_bytecode = True

from . import clock                                     # noqa: E402

clock.install()

REPO = os.environ.get("VERIF_REPO", "/repo")
if REPO not in sys.path[:1]:
    sys.path.insert(0, REPO)

warnings.filterwarnings("ignore", category=RuntimeWarning)
warnings.filterwarnings("ignore", category=DeprecationWarning)

import asynciojobs                                      # noqa: E402

_got = os.path.realpath(os.path.dirname(os.path.dirname(asynciojobs.__file__)))
if _got != os.path.realpath(REPO):
    raise ImportError("asynciojobs imported from {} instead of {}"
                      .format(_got, REPO))

from asynciojobs import (                               # noqa: E402,F401
    AbstractJob, Job, PureScheduler, Scheduler, Sequence)
