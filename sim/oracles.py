"""
Oracles for the runtime properties C01-C14 (single-run part): predicates over
the recorded history of one simulated execution. Twin-run oracles (C06, C08b,
C10c) are in twins.py.

Every oracle returns a list of Violation. Ties (events in the same virtual
instant) are always resolved in favour of the implementation: a clause is strict
only when virtual times differ or when the global sequence order alone already
decides (see DESIGN.md section 5).
"""

import asyncio

from . import spec as S
from .history import History, INF
from .runner import NOTDONE


class Violation:
    __slots__ = ('prop', 'clause', 'site', 'msg', 'nested')

    def __init__(self, prop, clause, site, msg):
        self.prop, self.clause, self.site, self.msg = prop, clause, site, msg
        self.nested = False     # the job at fault is a nested scheduler (c10)

    @property
    def sig(self):
        return "{}/{}".format(self.clause, self.site)

    def as_dict(self):
        return {"property": self.prop, "clause": self.clause,
                "site": self.site, "msg": self.msg}

    def __repr__(self):
        return "<{} {}/{}: {}>".format(self.prop, self.clause, self.site,
                                       self.msg)


def _site(sr):
    parts = ["top" if sr.hist.parents[sr.nid] is None else "nested",
             "windowed" if sr.window else "unwindowed"]
    return "-".join(parts)


def returned(run):
    return run.outcome in ('ret', 'exc')


# ----------------------------------------------------------------- C01

def c01(hist):
    out = []
    for nid, h in hist.nodes.items():
        parent = hist.parents[nid]
        if parent is None:
            continue
        psr = hist.sr(parent['id'])
        for seq, t in h.enters:
            # after the enclosing run began
            if psr.begin is None or psr.begin[0] > seq:
                out.append(Violation(
                    'C01', 'enter-before-enclosing-run-begins', 'nested',
                    "{} entered at seq {} before its scheduler {} began"
                    .format(nid, seq, parent['id'])))
            for rid in psr.req[nid]:
                fin = hist.nodes[rid].finished()
                if fin is None or fin[0] > seq:
                    kind = 'sched-requirement' if hist.nodes[rid].is_sched \
                        else 'job-requirement'
                    out.append(Violation(
                        'C01', 'enter-before-requirement-finished',
                        kind + ('-nestedjob' if h.is_sched else ''),
                        "{} entered at seq {} t={} but requirement {} {}"
                        .format(nid, seq, t, rid,
                                "never finished" if fin is None
                                else "finished at seq %d" % fin[0])))
    return out


# ----------------------------------------------------------------- C02

def c02(hist):
    out = []
    for nid, h in hist.nodes.items():
        if len(h.enters) > 1:
            parent = hist.parents[nid]
            site = 'windowed' if parent and parent['window'] else 'unwindowed'
            out.append(Violation(
                'C02', 'entered-twice', site,
                "{} entered {} times (seqs {})".format(
                    nid, len(h.enters), [s for s, _ in h.enters])))
    for sid in hist.sched_ids():
        sr = hist.sr(sid)
        if sr.verdict != 'success':
            continue
        for mh in sr.finite:
            fin = mh.ended()
            if hist.rerun is not None and mh.spec['cls'] == 'coro' \
                    and not mh.enters:
                # a coroutine object cannot be awaited a second time: Python
                # makes the job raise RuntimeError before its body; that is
                # how this job ended then ("raised while non-critical")
                tup = hist.run.post.get(mh.nid)
                if tup and tup[0] != 'error' and \
                        isinstance(tup[4], RuntimeError):
                    continue
            if len(mh.enters) != 1 or fin is None or fin[0] > sr.over[0]:
                out.append(Violation(
                    'C02', 'success-with-unfinished-job', _site(sr),
                    "{} reported success but non-forever job {} has enters={} "
                    "exits={}".format(sid, mh.nid, mh.enters, mh.exits)))
            elif mh.spec['critical'] and mh.exits[0][2] == 'exc':
                out.append(Violation(
                    'C02', 'success-with-critical-failure', _site(sr),
                    "{} reported success but critical job {} raised"
                    .format(sid, mh.nid)))
    return out


# ----------------------------------------------------------------- C03

def c03(hist):
    run = hist.run
    out = []
    if not S.admissible(hist.top):
        return out
    if not returned(run):
        win = any(n['window'] for n, _, _ in S.walk(hist.top) if S.is_sched(n))
        fails = any(n.get('outcome') == 'exc' for n, _, _ in S.walk(hist.top))
        site = ("windowed" if win else "unwindowed") + \
            ("-failing" if fails else "")
        out.append(Violation(
            'C03', 'run-does-not-terminate:' + run.outcome, site,
            "admissible tree, run() did not return: {} ({})"
            .format(run.outcome, run.value)))
        return out
    # ... and terminates by returning its verdict or raising what the
    # documentation says it raises, not by dying of an internal error
    if run.outcome == 'exc' and isinstance(run.value, Exception) and \
            not isinstance(run.value, (TimeoutError, asyncio.CancelledError)) \
            and not any(run.value is o.get('exc')
                        for nid, o in run.ctx.objs.items()
                        if nid in hist.nodes and not hist.nodes[nid].is_sched):
        win = any(n['window'] for n, _, _ in S.walk(hist.top) if S.is_sched(n))
        out.append(Violation(
            'C03', 'run-dies-with-internal-error',
            "windowed" if win else "unwindowed",
            "admissible tree, run() raised {!r}, which no job raised"
            .format(run.value)))
    # a scheduler with a timeout ends within a bound that does not depend on
    # what its jobs would do
    stall = hist.instants[-1] - hist.instants[0] if run.knobs['stall_den'] \
        else 0.0
    for sid in hist.sched_ids():
        sr = hist.sr(sid)
        if sr.begin is None or sr.timeout is None:
            continue
        slack = 0.0
        for node, _, _ in S.walk(sr.spec):
            if S.is_sched(node):
                slack += node['sd_timeout'] or 0.0
            else:
                slack += S.script_time(node.get('cleanup'))
                slack += S.script_time(node.get('handler'))
        bound = sr.begin[1] + sr.timeout + slack + stall
        if sr.over is None or sr.over[1] > bound:
            out.append(Violation(
                'C03', 'timed-scheduler-overruns', _site(sr),
                "{} began at {} with timeout {} but was over at {} (bound {})"
                .format(sid, sr.begin[1], sr.timeout,
                        sr.over and sr.over[1], bound)))
    return out


# ----------------------------------------------------------------- C07

def c07(hist, stats=None):
    out = []
    for sid in hist.sched_ids():
        sr = hist.sr(sid)
        if sr.begin is None:
            continue
        evs = []
        for mh in sr.mh:
            evs += [(seq, +1, mh.nid) for seq, _ in mh.enters]
            evs += [(seq, -1, mh.nid) for seq, _, _ in mh.exits]
        evs.sort()
        active, peak = 0, 0
        for seq, delta, mid in evs:
            active += delta
            if active > peak:
                peak = active
            if delta > 0 and sr.window and active > sr.window:
                out.append(Violation(
                    'C07', 'window-exceeded', _site(sr),
                    "{} window={} but {} direct jobs active when {} entered "
                    "(seq {})".format(sid, sr.window, active, mid, seq)))
                out[-1].nested = hist.nodes[mid].is_sched
        if stats is not None:
            if sr.window:
                if peak >= sr.window:
                    stats['window_full'] = stats.get('window_full', 0) + 1
            elif peak > 3:
                stats['nolimit_gt3'] = stats.get('nolimit_gt3', 0) + 1
    # None or 0 means no limit: nothing eligible is kept waiting
    for v in c12(hist):
        if v.site == 'unwindowed':
            out.append(Violation('C07', 'no-limit-but-' + v.clause, v.site,
                                 v.msg))
    return out


# ----------------------------------------------------------------- C12

def _eligible_seq(hist, sr, mid):
    """(seq, t) at which all requirements of member mid were finished;
    the run's begin for an entry job; None if never"""
    reqs = sr.req[mid]
    if not reqs:
        return sr.begin
    fins = [hist.nodes[r].finished() for r in reqs]
    if any(f is None for f in fins):
        return None
    return max(fins)


def c12(hist, stats=None):
    out = []
    for sid in hist.sched_ids():
        sr = hist.sr(sid)
        if sr.begin is None:
            continue
        t_close = sr.close_time()
        if t_close is None:
            t_close = INF
        if not sr.window:
            for mh in sr.mh:
                elig = _eligible_seq(hist, sr, mh.nid)
                if mh.enter is not None and elig is not None:
                    if mh.enter[1] != elig[1]:
                        out.append(Violation(
                            'C12', 'late-start', 'unwindowed',
                            "{} in {} eligible at t={} but entered at t={}"
                            .format(mh.nid, sid, elig[1], mh.enter[1])))
                        out[-1].nested = mh.is_sched
                if mh.enter is None and elig is not None \
                        and elig[1] < t_close:
                    out.append(Violation(
                        'C12', 'never-started', 'unwindowed',
                        "{} in {} eligible at t={} (run closes at {}) but "
                        "never entered".format(mh.nid, sid, elig[1], t_close)))
                    out[-1].nested = mh.is_sched
            continue
        # windowed: work conservation at quiescent points before the close
        elig = {mh.nid: _eligible_seq(hist, sr, mh.nid) for mh in sr.mh}
        waited = False
        for pseq, pt, _ in hist.run.polls:
            if pseq < sr.begin[0]:
                continue
            if pt >= t_close:
                break
            active = sum(1 for mh in sr.mh if mh.active_at(pseq))
            waiting = [mh.nid for mh in sr.mh
                       if elig[mh.nid] is not None
                       and elig[mh.nid][0] <= pseq
                       and not any(s <= pseq for s, _ in mh.enters)]
            if waiting:
                waited = True
            if waiting and active < sr.window:
                out.append(Violation(
                    'C12', 'free-slot-wasted', 'windowed',
                    "{} window={} at quiescent point seq {} t={}: {} active, "
                    "eligible jobs waiting: {}".format(
                        sid, sr.window, pseq, pt, active, waiting)))
                break
        if waited and stats is not None:
            stats['job_waited_for_slot'] = \
                stats.get('job_waited_for_slot', 0) + 1
    return out


# ----------------------------------------------------------------- C14

def c14(hist, stats=None):
    run = hist.run
    out = []
    objs = run.ctx.objs
    last = {}
    # result() is what the body returned; a returned object that happens to
    # be awaitable is handed over, not awaited
    for seq, t, kind, nid, payload in hist.events:
        if kind == 'mark' and payload == 'result-awaited':
            out.append(Violation(
                'C14', 'returned-object-awaited', hist.nodes[nid].spec['cls'],
                "the object returned by {} was awaited by somebody (seq {} "
                "t={})".format(nid, seq, t)))

    def check(label, pseq, snap, final):
        for nid, tup in snap.items():
            h = hist.nodes[nid]
            kind = 'sched' if h.is_sched else h.spec['cls']
            if tup[0] == 'error':
                out.append(Violation('C14', 'predicate-raises', kind,
                                     "{} at {}: {}".format(nid, label, tup[1])))
                continue
            idle, sched, running, done, exc, res = tup
            entered = any(s <= pseq for s, _ in h.enters)
            fin = None
            for s, _, k in h.exits:
                if k in ('ret', 'exc', 'cexc', 'cret') and s <= pseq:
                    fin = {'cexc': 'exc', 'cret': 'ret'}.get(k, k)
                    break
            cancelled = any(k == 'cancelled' and s <= pseq
                            for s, _, k in h.exits)

            def bad(clause, msg):
                out.append(Violation(
                    'C14', clause, kind,
                    "{} at {} (seq {}): {} [idle={} scheduled={} running={} "
                    "done={} exc={!r} res={!r}]".format(
                        nid, label, pseq, msg, idle, sched, running, done,
                        exc, res)))
            if bool(idle) != (not sched):
                bad('idle-vs-scheduled', "is_idle() != not is_scheduled()")
            if done and not running:
                bad('done-implies-running', "done but not running")
            if running and not sched:
                bad('running-implies-scheduled', "running but not scheduled")
            if bool(running) != entered:
                bad('running-vs-entered',
                    "is_running()={} but body entered={}".format(running,
                                                                 entered))
            # its scheduler asked for its cancellation while its body was
            # unfinished: it must never be reported done
            asked = [s for s, _ in h.cancel_req if s <= pseq]
            if done and asked and not any(
                    (k in ('ret', 'exc') and s < asked[0])
                    or k in ('cexc', 'cret')
                    for s, _, k in h.exits):
                bad('cancelled-reported-done',
                    "cancellation was requested (seq {}) before the body "
                    "finished, yet the job is reported done".format(asked[0]))
            elif bool(done) != (fin is not None):
                if done and cancelled:
                    bad('cancelled-reported-done', "cancelled job is done")
                else:
                    bad('done-vs-finished',
                        "is_done()={} but body finished={}".format(done, fin))
            prev = last.get(nid)
            if prev is not None:
                for i, name in ((1, 'scheduled'), (2, 'running'), (3, 'done')):
                    if prev[i] and not tup[i]:
                        bad('predicate-reverted', name + " went back to False")
            last[nid] = tup
            if fin == 'exc':
                want = objs.get(nid, {}).get('exc')
                if exc is not want:
                    bad('wrong-exception', "raised_exception() is not the "
                        "raised object {!r}".format(want))
            elif exc is not None:
                state = 'idle' if not sched else \
                    'cancelled' if cancelled else \
                    'done-ret' if fin else 'pending'
                out.append(Violation(
                    'C14', 'exception-not-none', state,
                    "{} at {}: raised_exception() is {!r}, not None, for a "
                    "job that did not raise ({})".format(nid, label, exc,
                                                         state)))
            if fin == 'ret':
                want = objs.get(nid, {}).get('ret')
                if res is not want:
                    bad('wrong-result',
                        "result() is not the returned object {!r}".format(want))
            if stats is not None and sched and not running and not final \
                    and not cancelled:
                stats['seen_scheduled_not_running'] = \
                    stats.get('seen_scheduled_not_running', 0) + 1

    for pseq, _, snap in run.polls:
        check('poll', pseq, snap, False)
    if run.post:
        check('after-run', run.seq_returned, run.post, True)
    if getattr(run, 'post2', None):
        if '__error__' in run.post2:
            out.append(Violation('C14', 'inspection-after-run-raises', '-',
                                 run.post2['__error__'][1]))
        else:
            check('after-run-and-inspection', run.seq_returned, run.post2,
                  True)
    # report each (clause, site, node) once
    seen, uniq = set(), []
    for v in out:
        key = (v.clause, v.site, v.msg.split(' ')[0])
        if key not in seen:
            seen.add(key)
            uniq.append(v)
    return uniq


def c14_rerun_implications(hist):
    """re-run cases, every job, every quiescent point of both runs and after
    them: whatever a job carries over from the first run, "is_done implies
    is_running implies is_scheduled" and "is_idle iff not scheduled" are
    statements about one instant and hold at each of them"""
    run = hist.run
    samples = [(seq, t, snap) for seq, t, snap in run.polls]
    samples.append((run.seq_returned, None, run.post))
    for seq, _, snap in samples:
        for nid, tup in sorted(snap.items()):
            if tup[0] == 'error':
                continue
            idle, sched, running, done = tup[:4]
            msg = None
            if bool(idle) == bool(sched):
                msg = "is_idle()={} and is_scheduled()={}".format(idle, sched)
            elif running and not sched:
                msg = "is_running() although not is_scheduled()"
            elif done and not running:
                msg = "is_done() although not is_running()"
            if msg:
                return [Violation(
                    'C14', 'predicate-implication', 'all-jobs',
                    "{} at seq {}: {} [idle={} scheduled={} running={} "
                    "done={}]".format(nid, seq, msg, idle, sched, running,
                                      done))]
    return []


def c14_new_jobs(hist, new_ids):
    """re-run cases: what the predicates say, after the second run, about the
    jobs that were added between the two runs (the others carry what the
    first run left in them until they are started again)"""
    out = []
    run = hist.run
    objs = run.ctx.objs
    for nid in new_ids:
        h = hist.nodes.get(nid)
        tup = run.post.get(nid)
        if h is None or tup is None:
            continue
        if tup[0] == 'error':
            out.append(Violation('C14', 'predicate-raises', 'rerun',
                                 "{}: {}".format(nid, tup[1])))
            continue
        idle, sched, running, done, exc, res = tup
        fin = None
        for _, _, k in h.exits:
            if k in ('ret', 'exc', 'cexc', 'cret'):
                fin = {'cexc': 'exc', 'cret': 'ret'}.get(k, k)
                break

        def bad(clause, msg):
            out.append(Violation(
                'C14', clause, 'rerun',
                "{} (added before the second run): {} [idle={} scheduled={} "
                "running={} done={} exc={!r} res={!r}]".format(
                    nid, msg, idle, sched, running, done, exc, res)))
        if bool(running) != bool(h.enters):
            bad('running-vs-entered', "is_running()={} but body entered={}"
                .format(running, bool(h.enters)))
        if bool(done) != (fin is not None):
            bad('done-vs-finished', "is_done()={} but the body {}".format(
                done, "ended (%s)" % fin if fin else "never ended"))
        if exc is not None and (fin != 'exc'
                                or exc is not objs.get(nid, {}).get('exc')):
            bad('exception-mismatch',
                "raised_exception() is not what the body raised")
        if fin == 'ret' and res is not objs.get(nid, {}).get('ret'):
            bad('result-mismatch', "result() is not what the body returned")
    return out


# ----------------------------------------------------------------- C04

CALIB = {}


def calibrate():
    """what why() says after a timeout / after a critical failure, measured on
    the tree under test with one-job schedulers"""
    if CALIB:
        return CALIB
    from .runner import run_spec, default_knobs

    def job(**kw):
        node = {"id": "j1", "kind": "job", "cls": "abstract",
                "critical": False, "forever": False,
                "script": [["sleep", 1.0]], "outcome": "ret", "cleanup": [],
                "handler": []}
        node.update(kw)
        return node

    def sched(member, **kw):
        node = {"id": "s1", "kind": "sched", "cls": "PureScheduler",
                "critical": False, "forever": False, "window": None,
                "timeout": None, "sd_timeout": 1.0, "verbose": False,
                "members": [member], "edges": [], "build": "ctor"}
        node.update(kw)
        return node
    knobs = default_knobs(1)
    knobs['tie_shuffle'] = False
    r1 = run_spec(sched(job(), timeout=0.5), knobs, poll=False)
    r2 = run_spec(sched(job(outcome='exc', critical=True)), knobs, poll=False)
    r3 = run_spec(sched(job()), knobs, poll=False)
    CALIB['timeout_0.5'] = r1.post_sched['s1'][2]
    CALIB['critical'] = r2.post_sched['s1'][2]
    CALIB['fine'] = r3.post_sched['s1'][2]
    CALIB['ok'] = (r1.value is False and r2.value is False
                   and r3.value is True)
    return CALIB


def _why_kind(text):
    low = str(text).lower()
    timeish = any(w in low for w in ('tim', 'expir', 'deadline'))
    critish = 'critical' in low or 'exception' in low
    if text == "FINE":
        return 'fine'
    if timeish and not critish:
        return 'timeout'
    if critish and 'timed out' not in low:
        return 'critical'
    return 'unknown'


def c04(hist):
    run = hist.run
    out = []
    objs = run.ctx.objs
    for sid in hist.sched_ids():
        sr = hist.sr(sid)
        if sr.begin is None or sr.over is None or sr.over[2] == 'cancelled':
            continue
        if sr.degenerate:
            continue
        site = _site(sr)
        spec = sr.spec
        raising = spec['cls'] == 'Scheduler' and spec['critical']
        kind = sr.over[2]
        val = sr.value

        def bad(clause, msg, site=site):
            out.append(Violation('C04', clause, site, sid + ": " + msg))

        # ---- form of the report
        if kind == 'ret' and val is not True and val is not False:
            bad('verdict-not-bool', "run returned {!r}".format(val))
            continue
        if kind == 'exc' and not raising:
            bad('non-critical-scheduler-raises',
                "run raised {!r} although the scheduler is {}".format(
                    val, spec['cls'] + ('' if spec['cls'] == 'PureScheduler'
                                        else ' non-critical')))
            continue
        if kind == 'ret' and val is False and raising:
            bad('critical-scheduler-returns-false',
                "critical scheduler returned False instead of raising")
        success = kind == 'ret' and val is True
        # ---- accessors
        fto, fc, why = sr.fto, sr.fc, sr.why
        if success:
            if fto or fc or why != "FINE":
                bad('diagnosis-after-success',
                    "success but failed_time_out()={!r} failed_critical()={!r}"
                    " why()={!r}".format(fto, fc, why))
        else:
            if bool(fto) == bool(fc):
                bad('diagnosis-names-no-single-cause',
                    "failure but failed_time_out()={!r} failed_critical()={!r}"
                    " why()={!r} (timeout={!r})".format(fto, fc, why,
                                                        sr.timeout),
                    site=site + ('-timeout0' if sr.timeout == 0 else ''))
            if why == "FINE":
                bad('why-fine-after-failure',
                    "failure but why() is 'FINE' (timeout={!r})"
                    .format(sr.timeout),
                    site=site + ('-timeout0' if sr.timeout == 0 else ''))
            elif sr.cause in ('timeout', 'critical') \
                    and _why_kind(why) != sr.cause:
                bad('why-names-wrong-cause',
                    "cause is {} but why()={!r}".format(sr.cause, why))
        # ---- history facts
        all_fin = sr.fin is not None
        t_fin = sr.fin[1] if all_fin else INF
        t_exp = sr.exp_t if sr.exp_t is not None else INF
        crits = []      # (t, seq, member) for every critical raise
        for mh in sr.mh:
            if mh.spec['critical']:
                for seq, t, k in mh.exits:
                    if k == 'exc':
                        crits.append((t, seq, mh.nid))
        crits.sort()
        t_crit = crits[0][0] if crits else INF
        finite_crit_raised = any(
            mh.spec['critical'] and mh.exits and mh.exits[0][2] == 'exc'
            for mh in sr.finite)
        if success:
            if not all_fin or sr.fin[0] > sr.over[0]:
                bad('success-unjustified:unfinished-job',
                    "success although not all non-forever jobs finished")
            elif finite_crit_raised:
                bad('success-unjustified:critical-raised',
                    "success although a critical job raised")
            elif t_crit < t_fin:
                bad('success-unjustified:critical-raised',
                    "success although critical forever job {} raised at {} "
                    "before the last completion at {}".format(
                        crits[0][2], t_crit, t_fin))
            elif t_fin > t_exp:
                bad('success-unjustified:after-expiry',
                    "success although the last job finished at {} after the "
                    "timeout expired at {}".format(t_fin, t_exp))
            continue
        cause = sr.cause
        if raising and kind == 'exc':
            # the exception object tells the cause as well
            cands = [objs.get(m, {}).get('exc') for _, _, m in crits]
            # a critical job that raised while being cancelled is "one of
            # its critical jobs that raised" as well
            cands += [objs.get(mh.nid, {}).get('exc') for mh in sr.mh
                      if mh.spec['critical']
                      and any(k == 'cexc' for _, _, k in mh.exits)]
            if any(val is c for c in cands):
                exc_cause = 'critical'
            elif isinstance(val, TimeoutError):
                exc_cause = 'timeout'
            else:
                exc_cause = 'critical'
                if True:
                    bad('wrong-exception-object',
                        "critical scheduler raised {!r} which is not the "
                        "object raised by one of its critical jobs {!r}"
                        .format(val, cands),
                        site=site + ('-timeout0' if sr.timeout == 0 else ''))
                    exc_cause = None
            if cause in ('timeout', 'critical') and exc_cause is not None \
                    and exc_cause != cause:
                bad('exception-vs-diagnosis',
                    "raised {!r} but diagnosis says {}".format(val, cause))
            if cause == 'ambiguous' and exc_cause is not None:
                cause = exc_cause
        if cause == 'timeout':
            if sr.timeout is None:
                bad('timeout-unjustified:no-timeout', "no timeout configured")
            elif all_fin and t_fin < t_exp and not crits:
                bad('timeout-unjustified:all-finished',
                    "timeout verdict although all jobs had finished at {} "
                    "before expiry {}".format(t_fin, t_exp))
            elif t_crit < t_exp:
                bad('timeout-unjustified:critical-first',
                    "timeout verdict although {} raised at {} before expiry {}"
                    .format(crits[0][2], t_crit, t_exp))
            elif sr.over[1] < t_exp:
                bad('timeout-unjustified:early',
                    "timeout verdict at {} before expiry {}".format(
                        sr.over[1], t_exp))
        elif cause == 'critical':
            if not crits:
                bad('critical-unjustified:nobody-raised',
                    "critical verdict but no critical job raised")
            elif t_crit > t_exp:
                bad('critical-unjustified:after-expiry',
                    "critical verdict but first critical raise at {} is after "
                    "expiry {}".format(t_crit, t_exp))
            elif all_fin and t_fin < t_crit:
                bad('critical-unjustified:after-completion',
                    "critical verdict but all jobs had finished at {} before "
                    "the raise at {}".format(t_fin, t_crit))
        # cause ambiguous without exception: already reported above
    # the top-level run() result must be the top scheduler's own verdict
    tsr = hist.sr(hist.top['id'])
    if returned(run) and tsr.over is not None:
        if run.outcome == 'ret' and (tsr.over[2] != 'ret'
                                     or run.value is not tsr.value):
            out.append(Violation('C04', 'run-vs-co_run', 'top',
                                 "run() returned {!r} but co_run gave {!r}"
                                 .format(run.value, tsr.value)))
    return out


# ----------------------------------------------------------------- shutdown
# model, used by C05/C08/C09 (end instant) and C13

def _nat(hist, mh, sd_state):
    """
    natural duration of the co_shutdown() of one direct member when called at
    sequence point sd_state (a seq): handler time for an atomic job, 0 for a
    nested scheduler that already shut down, its own phase otherwise.
    """
    if not mh.is_sched:
        handler = mh.spec.get('handler')
        if handler == 'never':
            return INF
        return S.script_time(handler)
    # nested: did it already broadcast? (its own first sdrun_begin earlier)
    if any(seq < sd_state for seq, _ in mh.sdrun_begin):
        return 0.0
    return phase_length(hist, hist.sr(mh.nid), sd_state)


def phase_length(hist, sr, sd_state):
    if not sr.mh or hist.rerun is not None:
        # (a scheduler shuts down once: nothing is sent in a second run)
        return 0.0
    longest = max(_nat(hist, mh, sd_state) for mh in sr.mh)
    limit = sr.spec['sd_timeout']
    if limit is None:
        return longest
    return min(limit, longest)


def _abort_clauses(hist, sr, prop, t_trig, trig_seq, label, exact, out):
    """
    Shared by C05 (critical raise), C08 (expiry) and C09 (last completion):
    nothing new starts, what is active or queued is cancelled at that instant,
    the run ends right after the cancellations and the shutdown phase.
    trig_seq is None for an expiry (no event marks it).
    """
    sid = sr.nid
    site = _site(sr)
    t_c = t_trig
    for mh in sr.mh:
        # (i) nothing new starts
        for seq, t in mh.enters:
            if t > t_trig:
                out.append(Violation(
                    prop, 'start-after-' + label, site,
                    "{} in {} entered at t={} after the {} at t={}".format(
                        mh.nid, sid, t, label, t_trig)))
            elif t == t_trig and trig_seq is not None and seq > trig_seq:
                elig = _eligible_seq(hist, sr, mh.nid)
                if elig is None or elig[0] >= trig_seq:
                    out.append(Violation(
                        prop, 'start-after-' + label, site,
                        "{} in {} entered (seq {}) after the {} (seq {}) "
                        "without being eligible before it".format(
                            mh.nid, sid, seq, label, trig_seq)))
        # (ii) what is active is cancelled at that instant
        if not mh.enters:
            continue
        if not mh.exits:
            out.append(Violation(
                prop, 'job-left-running', site + ('-nestedjob' if mh.is_sched
                                                  else ''),
                "{} in {} still active after the run ended ({} at t={})"
                .format(mh.nid, sid, label, t_trig)))
            continue
        seq, t, kind = mh.exits[0]
        if kind in ('ret', 'exc', 'scancel'):
            if t > t_trig:
                out.append(Violation(
                    prop, 'waited-for-normal-completion',
                    site + ('-nestedjob' if mh.is_sched else ''),
                    "{} in {} finished normally at t={} after the {} at t={}"
                    .format(mh.nid, sid, t, label, t_trig)))
        else:
            if mh.is_sched:
                # the cancellation reaches the jobs below it in that instant
                for nid in hist.subtree_ids(mh.nid):
                    h = hist.nodes[nid]
                    if h.is_sched or not h.enters or h.enters[0][1] > t_trig:
                        continue
                    if h.exits and h.exits[0][1] < t_trig:
                        continue
                    if h.exits and h.exits[0][1] == t_trig and \
                            h.exits[0][2] in ('ret', 'exc', 'scancel'):
                        continue
                    seen = h.cancel_seen[0][1] if h.cancel_seen else None
                    if seen is None or seen > t_trig:
                        out.append(Violation(
                            prop, 'nested-job-not-cancelled-at-trigger',
                            site,
                            "{} (below nested {} of {}) was active at the {} "
                            "at t={} but saw its cancellation at t={}".format(
                                nid, mh.nid, sid, label, t_trig, seen)))
                        break
                cr = mh.cancel_req[0][1] if mh.cancel_req else None
                if cr != t_trig:
                    out.append(Violation(
                        prop, 'cancel-not-at-trigger', site + '-nestedjob',
                        "nested {} in {} was asked to cancel at t={} but the "
                        "{} was at t={}".format(mh.nid, sid, cr, label,
                                                t_trig)))
            if not mh.is_sched:
                cs = mh.cancel_seen[0][1] if mh.cancel_seen else None
                if cs != t_trig:
                    out.append(Violation(
                        prop, 'cancel-not-at-trigger', site,
                        "{} in {} saw cancellation at t={} but the {} was at "
                        "t={}".format(mh.nid, sid, cs, label, t_trig)))
            if t > t_c:
                t_c = t
    # (iii) end of the run
    if sr.over is None:
        return
    # ... which waits for the cancellations to complete, also those a
    # cancelled nested scheduler relays to its own jobs
    for mh in sr.mh:
        if not mh.is_sched or not mh.enters:
            continue
        for nid in hist.subtree_ids(mh.nid):
            if nid != mh.nid and hist.nodes[nid].active_at(sr.over[0]):
                out.append(Violation(
                    prop, 'job-left-running', site + '-below-nested',
                    "{} (below nested {} of {}) still active when the run "
                    "ended at t={} ({} at t={})".format(
                        nid, mh.nid, sid, sr.over[1], label, t_trig)))
                break
    sd_begin = [e for e in sr.h.sdrun_begin if e[0] < sr.over[0]]
    if not sd_begin:
        return                              # C13 reports a missing shutdown
    length = phase_length(hist, sr, sd_begin[0][0])
    if exact and length != INF:
        want = t_c + length
        if sr.over[1] != want:
            out.append(Violation(
                prop, 'end-instant', site,
                "{} ended at t={} but {} at t={}, cancellations complete at "
                "t={}, shutdown phase {}s => expected t={}".format(
                    sid, sr.over[1], label, t_trig, t_c, length, want)))


def _exact(run):
    return not run.knobs['stall_den']


# ----------------------------------------------------------------- C05

def _never_ends(hist, sr, prop, t_trig, label, out):
    """the trigger happened, the run of this scheduler never ended, and the
    whole simulation got stuck: the abort itself hangs"""
    if sr.over is None and not returned(hist.run):
        out.append(Violation(
            prop, 'run-never-ends-after-' + label.replace(' ', '-'),
            _site(sr),
            "{}: {} at t={} but the run never ended ({}: {})".format(
                sr.nid, label, t_trig, hist.run.outcome, hist.run.value)))
        return True
    return False


def c05(hist, stats=None):
    out = []
    run = hist.run
    for sid in hist.sched_ids():
        sr = hist.sr(sid)
        if sr.crit is not None and sr.begin is not None and not sr.degenerate \
                and (sr.exp_t is None or sr.crit[1] < sr.exp_t) \
                and (sr.fin is None or sr.crit[1] <= sr.fin[1]):
            if _never_ends(hist, sr, 'C05', sr.crit[1], 'critical failure',
                           out):
                continue
        if sr.verdict != 'fail' or sr.cause != 'critical' or sr.crit is None:
            continue
        if sr.exp_t is not None and sr.exp_t <= sr.crit[1]:
            continue                         # tie with the expiry: see C04
        _abort_clauses(hist, sr, 'C05', sr.crit[1], sr.crit[0],
                       'critical failure', _exact(run), out)
        # (iv) finished jobs keep their results
        _kept_results(hist, sr, 'C05', out)
        if stats is not None:
            busy = any(mh.active_at(sr.crit[0]) for mh in sr.mh
                       if mh.nid != sr.crit[2])
            if busy:
                stats['crit_with_siblings_active'] = \
                    stats.get('crit_with_siblings_active', 0) + 1
    return out


def _kept_results(hist, sr, prop, out):
    run = hist.run
    objs = run.ctx.objs
    for mh in sr.mh:
        fin = mh.finished()
        if fin is None or fin[0] > sr.over[0]:
            continue
        tup = run.post.get(mh.nid)
        if tup is None or tup[0] == 'error':
            continue
        kind = mh.exits[0][2]
        if not tup[3]:
            out.append(Violation(
                prop, 'finished-job-lost-its-result', _site(sr),
                "{} finished ({}) before the abort but is not done afterwards"
                .format(mh.nid, kind)))
        elif kind == 'ret' and tup[5] is not objs.get(mh.nid, {}).get('ret'):
            out.append(Violation(
                prop, 'finished-job-lost-its-result', _site(sr),
                "{} result changed".format(mh.nid)))
        elif kind == 'exc' and tup[4] is not objs.get(mh.nid, {}).get('exc'):
            out.append(Violation(
                prop, 'finished-job-lost-its-result', _site(sr),
                "{} exception changed".format(mh.nid)))


# ----------------------------------------------------------------- C08 (a,c)

def c08(hist, stats=None):
    out = []
    run = hist.run
    for sid in hist.sched_ids():
        sr = hist.sr(sid)
        if sr.begin is not None and sr.timeout is None and \
                sr.verdict == 'fail' and sr.cause == 'timeout':
            out.append(Violation(
                'C08', 'timeout-verdict-without-expiry', _site(sr),
                "{} has no timeout but reports one (why()={!r})".format(
                    sid, sr.why)))
        if sr.begin is not None and sr.verdict == 'success':
            # a timeout that did not expire has no effect, also on what the
            # scheduler says about itself afterwards
            tup = run.post_sched.get(sid)
            if tup and tup[0] != 'error' and tup[0]:
                out.append(Violation(
                    'C08', 'timeout-reported-by-a-successful-run', _site(sr),
                    "{} succeeded but failed_time_out()={!r} why()={!r}"
                    .format(sid, tup[0], tup[2])))
        if sr.timeout is None or sr.begin is None:
            continue
        if sr.exp_t not in (None, INF) and hist.instants[-1] > sr.exp_t \
                and (sr.crit is None or sr.crit[1] > sr.exp_t) \
                and (sr.fin is None or sr.fin[1] > sr.exp_t):
            if _never_ends(hist, sr, 'C08', sr.exp_t, 'expiry', out):
                continue
        if sr.verdict == 'fail' and sr.cause == 'timeout' \
                and sr.exp_t not in (None, INF):
            if sr.crit is not None and sr.crit[1] <= sr.exp_t:
                continue                     # tie / C04's business
            _abort_clauses(hist, sr, 'C08', sr.exp_t, None, 'expiry',
                           _exact(run), out)
            if sr.spec['cls'] == 'Scheduler' and sr.spec['critical'] and \
                    sr.over[2] == 'exc' and \
                    not isinstance(sr.value, TimeoutError):
                out.append(Violation(
                    'C08', 'timeout-verdict-is-not-TimeoutError', _site(sr),
                    "{} timed out (failed_time_out() is set) but raised {!r}"
                    .format(sid, sr.value)))
            _kept_results(hist, sr, 'C08', out)
            if stats is not None:
                stats['timeouts_fired'] = stats.get('timeouts_fired', 0) + 1
                if hist.parents[sid] is not None:
                    stats['nested_timeouts_fired'] = \
                        stats.get('nested_timeouts_fired', 0) + 1
        # the timeout verdict is given only when the timeout did expire
        if sr.verdict == 'fail' and sr.cause == 'timeout' and \
                sr.over is not None and (sr.exp_t in (None, INF)
                                         or sr.over[1] < sr.exp_t):
            out.append(Violation(
                'C08', 'timeout-verdict-without-expiry', _site(sr),
                "{} reports a timeout (why()={!r}) but was over at t={} and "
                "its timeout {!r} expires at t={}".format(
                    sid, sr.why, sr.over[1], sr.timeout, sr.exp_t)))
        # a scheduler holding forever jobs only: there is no "last regular
        # job", but the timeout clause still applies - if no job at all has
        # ended by the expiry the run is not over, so it must time out
        if sr.degenerate and sr.over is not None and sr.over[2] != 'cancelled' \
                and sr.exp_t not in (None, INF) and sr.verdict == 'success' \
                and not any(t <= sr.exp_t for mh in sr.mh
                            for _, t, _ in mh.exits) \
                and sr.over[1] >= sr.exp_t:
            out.append(Violation(
                'C08', 'expiry-ignored', _site(sr) + '-forever-only',
                "{} holds forever jobs only, none had ended when its timeout "
                "expired at t={}, yet it reported success".format(
                    sid, sr.exp_t)))
        # the run is not over T seconds after it began => it must be closing
        # with the timeout verdict (or another trigger came first)
        if sr.over is not None and sr.exp_t not in (None, INF) \
                and sr.over[2] != 'cancelled' and sr.verdict == 'success' \
                and sr.fin is not None and sr.fin[1] > sr.exp_t:
            out.append(Violation(
                'C08', 'expiry-ignored', _site(sr),
                "{} succeeded with last completion at {} after expiry {}"
                .format(sid, sr.fin[1], sr.exp_t)))
    return out


# ----------------------------------------------------------------- C09

def c09(hist, stats=None):
    out = []
    run = hist.run
    for sid in hist.sched_ids():
        sr = hist.sr(sid)
        if sr.fin is not None and sr.mh and not sr.degenerate \
                and (sr.crit is None or sr.crit[1] > sr.fin[1]) \
                and (sr.exp_t is None or sr.exp_t > sr.fin[1]):
            if _never_ends(hist, sr, 'C09', sr.fin[1], 'last completion',
                           out):
                continue
        if sr.verdict == 'success' and sr.mh and not sr.degenerate and (
                sr.fin is None or sr.fin[0] > sr.over[0]):
            left = [mh.nid for mh in sr.finite
                    if mh.ended() is None or mh.ended()[0] > sr.over[0]]
            out.append(Violation(
                'C09', 'run-ends-before-last-regular-job', _site(sr),
                "{} ended (success) at t={} while its non-forever job(s) {} "
                "had not finished".format(sid, sr.over[1], left)))
            continue
        if sr.verdict != 'success' or sr.fin is None or not sr.mh \
                or sr.degenerate:
            continue
        forever_active = [mh for mh in sr.mh if mh.spec['forever']
                          and mh.active_at(sr.fin[0])]
        _abort_clauses(hist, sr, 'C09', sr.fin[1], sr.fin[0],
                       'last completion', _exact(run), out)
        if stats is not None and forever_active:
            stats['forever_cancelled_at_end'] = \
                stats.get('forever_cancelled_at_end', 0) + 1
    # until then forever jobs obey the window like any other job
    for v in c07(hist):
        nid = v.msg.split(' when ')[1].split(' ')[0] if ' when ' in v.msg \
            else None
        if nid in hist.nodes and hist.nodes[nid].spec['forever']:
            out.append(Violation('C09', 'forever-job-ignores-window', v.site,
                                 v.msg))
    # a forever job that ends releases the jobs that require it: C12a/C01
    return out


# ----------------------------------------------------------------- C11

BODY_KINDS = ('enter', 'exit', 'cancel_seen', 'cancel_again', 'run_begin')


def c11(hist, stats=None):
    out = []
    run = hist.run
    if not returned(run):
        return out
    for sid in hist.sched_ids():
        sr = hist.sr(sid)
        if sr.over is None:
            continue
        over_seq, over_t, over_kind = sr.over
        how = {'ret': 'ended', 'exc': 'raised', 'cancelled': 'cancelled'}[
            over_kind]
        site = ("top" if hist.parents[sid] is None else "nested") + "-" + how
        sub = hist.subtree_ids(sid)
        for nid in sub:
            h = hist.nodes[nid]
            if h.active_at(over_seq):
                phase = _phase_at_cancel(hist, sr) if over_kind == 'cancelled' \
                    else 'n/a'
                out.append(Violation(
                    'C11', 'job-active-after-run-over',
                    site + ':' + phase,
                    "{} still active when the run of {} was over ({} at seq {}"
                    " t={})".format(nid, sid, how, over_seq, over_t)))
            for seq, t in h.enters:
                if seq > over_seq:
                    out.append(Violation(
                        'C11', 'job-starts-after-run-over', site,
                        "{} entered at seq {} t={} after the run of {} was "
                        "over (seq {} t={})".format(nid, seq, t, sid, over_seq,
                                                    over_t)))
        # handlers launched by this run's own shutdown phase
        begins = [e for e in sr.h.sdrun_begin if e[0] < over_seq]
        if begins:
            b_seq = begins[0][0]
            for nid in sub:
                h = hist.nodes[nid]
                for seq, t in h.sd_enter:
                    if not b_seq < seq < over_seq:
                        continue
                    closed = [e for e in h.sd_exit + h.sd_cancel
                              if seq < e[0]]
                    if not closed or min(closed)[0] > over_seq:
                        out.append(Violation(
                            'C11', 'shutdown-handler-pending-after-run-over',
                            site,
                            "co_shutdown of {} launched at seq {} by {} is "
                            "still pending when that run is over (seq {})"
                            .format(nid, seq, sid, over_seq)))
    # top level: no unfinished task, no further activity
    if run.pending_at_return:
        out.append(Violation(
            'C11', 'tasks-pending-after-run', 'top',
            "{} task(s) created by the run are unfinished when run() returns: "
            "{}".format(len(run.pending_at_return),
                        run.pending_at_return[:4])))
    late = [e for e in hist.events
            if e[0] > run.seq_returned and e[2] in BODY_KINDS + (
                'sd_enter', 'sd_exit', 'sd_cancel')]
    if late:
        out.append(Violation(
            'C11', 'activity-after-run', 'top',
            "events after run() returned: {}".format(
                [(e[0], e[1], e[2], e[3]) for e in late[:6]])))
    if stats is not None:
        for sid in hist.sched_ids():
            sr = hist.sr(sid)
            if sr.over is not None and sr.over[2] == 'cancelled':
                key = 'nested_cancelled_in:' + _phase_at_cancel(hist, sr)
                stats[key] = stats.get(key, 0) + 1
            elif sr.begin is None and hist.parents[sid] is not None \
                    and hist.sr(hist.parents[sid]['id']).over is not None:
                stats['nested_never_started'] = \
                    stats.get('nested_never_started', 0) + 1
    return out


def _phase_at_cancel(hist, sr):
    """in which phase of its life was this (cancelled) nested run when its
    enclosing scheduler started closing"""
    parent = hist.parents[sr.nid]
    if parent is None:
        return 'n/a'
    t_cancel = hist.sr(parent['id']).close_time()
    own = []
    if sr.crit is not None:
        own.append(sr.crit[1])
    if sr.exp_t is not None:
        own.append(sr.exp_t)
    if sr.fin is not None:
        own.append(sr.fin[1])
    t_own = min(own) if own else INF
    if t_cancel is None or t_cancel < t_own:
        return 'main-loop'
    sdb = sr.h.sdrun_begin
    if sdb and sdb[0][1] <= t_cancel:
        return 'shutdown'
    return 'tidying'


# ----------------------------------------------------------------- C13

def c13(hist, stats=None):
    out = []
    run = hist.run
    if not returned(run):
        return out
    exact = _exact(run)
    for sid in hist.sched_ids():
        sr = hist.sr(sid)
        if not sr.ended_by_itself():
            continue
        over_seq = sr.over[0]
        site = _site(sr)
        exit_path = sr.verdict if sr.verdict == 'success' else sr.cause
        # ---- exactly once, by the time the run is over
        for nid in hist.subtree_ids(sid):
            h = hist.nodes[nid]
            if h.is_sched:
                continue
            n_by_over = sum(1 for seq, _ in h.sd_enter if seq < over_seq)
            if n_by_over != 1:
                state = 'never-started' if not h.enters else \
                    'cancelled' if h.exits and h.exits[0][2] == 'cancelled' \
                    else 'finished' if h.exits else 'running'
                nested = hist.parents[nid]['id'] != sid
                out.append(Violation(
                    'C13',
                    'shutdown-missed' if n_by_over == 0 else 'shutdown-twice',
                    "{}-{}{}".format(exit_path, state,
                                     '-nested' if nested else ''),
                    "{} received co_shutdown {} time(s) by the end of the run "
                    "of {} ({})".format(nid, n_by_over, sid, exit_path)))
        begins = [e for e in sr.h.sdrun_begin if e[0] < over_seq]
        if not begins:
            if sr.mh:
                out.append(Violation(
                    'C13', 'no-shutdown-phase', site + '-' + str(exit_path),
                    "{} ended without a shutdown phase".format(sid)))
            continue
        b_seq, b_t = begins[0]
        ends = [e for e in sr.h.sdrun_end if e[0] > b_seq]
        # ---- when: direct handlers all start together, nobody active
        for mh in sr.mh:
            if mh.is_sched:
                continue
            mine = [e for e in mh.sd_enter if b_seq < e[0] < over_seq]
            for seq, t in mine:
                if t != b_t:
                    out.append(Violation(
                        'C13', 'shutdown-not-at-phase-start', site,
                        "{} shut down at t={} but the phase of {} began at "
                        "t={}".format(mh.nid, t, sid, b_t)))
        # ---- how long / who is cancelled / report
        if not ends:
            continue
        e_seq, e_t, e_val = ends[0]
        length = phase_length(hist, sr, b_seq)
        limit = sr.spec['sd_timeout']
        if exact and length != INF and e_t - b_t != length:
            out.append(Violation(
                'C13', 'phase-length', site,
                "shutdown phase of {} lasted {}s, expected {}s "
                "(shutdown_timeout={})".format(sid, e_t - b_t, length, limit)))
        if limit is not None and exact and e_t - b_t > limit:
            out.append(Violation(
                'C13', 'phase-exceeds-shutdown-timeout', site,
                "shutdown phase of {} lasted {}s > shutdown_timeout {}"
                .format(sid, e_t - b_t, limit)))
        nats = [_nat(hist, mh, b_seq) for mh in sr.mh]
        if exact:
            for mh, nat in zip(sr.mh, nats):
                if mh.is_sched:
                    continue
                exits = [e for e in mh.sd_exit if b_seq < e[0]]
                cancels = [e for e in mh.sd_cancel if b_seq < e[0]]
                if limit is None or nat < limit:
                    if not exits or exits[0][1] != b_t + nat or cancels:
                        out.append(Violation(
                            'C13', 'handler-not-completed', site,
                            "handler of {} (natural {}s, limit {}) should "
                            "complete at {}: exits={} cancels={}".format(
                                mh.nid, nat, limit, b_t + nat, exits, cancels)))
                elif nat > limit:
                    if exits or not cancels or cancels[0][1] != b_t + limit:
                        out.append(Violation(
                            'C13', 'straggler-not-cancelled', site,
                            "handler of {} (natural {}s > limit {}) should be "
                            "cancelled at {}: exits={} cancels={}".format(
                                mh.nid, nat, limit, b_t + limit, exits,
                                cancels)))
        if limit is None:
            want = True
        elif any(n > limit for n in nats):
            want = False
        elif any(n == limit for n in nats) and sr.mh:
            want = None                      # tie
        else:
            want = True
        # with stalls a handler that would finish in time can be held up past
        # the (equally late) deadline: the report is judged in exact mode only
        if exact and want is not None and e_val != 'ret:' + repr(want):
            out.append(Violation(
                'C13', 'shutdown-report', site,
                "co_shutdown of {} reported {} but handlers take {} with "
                "shutdown_timeout {}".format(sid, e_val, nats, limit)))
        if stats is not None:
            if any(n != INF and limit is not None and n > limit for n in nats):
                stats['stragglers_cancelled'] = \
                    stats.get('stragglers_cancelled', 0) + 1
            k = 'shutdown_on:' + str(exit_path)
            stats[k] = stats.get(k, 0) + 1
    # ---- never while a job of the same scheduler is still running
    for nid, h in hist.nodes.items():
        if h.is_sched or hist.parents[nid] is None:
            continue
        parent = hist.parents[nid]
        psr = hist.sr(parent['id'])
        for seq, t in h.sd_enter:
            busy = [mh.nid for mh in psr.mh if mh.active_at(seq)]
            if busy:
                out.append(Violation(
                    'C13', 'shutdown-while-sibling-running',
                    'own-phase' if psr.h.sdrun_begin and
                    psr.over is not None and psr.over[2] != 'cancelled'
                    else 'relayed',
                    "{} received co_shutdown at seq {} t={} while {} of the "
                    "same scheduler {} still run".format(
                        nid, seq, t, busy, parent['id'])))
                break
    # ---- jobs of a nested run that ended by itself: inside that run
    #      (covered by exactly-once-by-over above, applied to every level)
    # ---- the later explicit shutdown sends nothing more
    late = [e for e in hist.events
            if e[0] > run.seq_returned and e[2] == 'sd_enter']
    if late:
        out.append(Violation(
            'C13', 'explicit-shutdown-sends-again', 'top',
            "co_shutdown sent after run(): {}".format(
                [(e[0], e[3]) for e in late[:5]])))
    # coroutine-based jobs: a second call shows up as a reuse error
    for msg in run.ctx.loop_errors:
        if 'cannot reuse already awaited coroutine' in msg:
            out.append(Violation('C13', 'shutdown-twice', 'coro-job', msg))
            break
    return out


# ----------------------------------------------------------------- C10 (a,b)

def c10(hist, stats=None):
    """containment / propagation of a failed nested run; the 'as one job' part
    is what C01/C07/C12 check through run_begin/over, the flattening twin is in
    twins.py"""
    out = []
    run = hist.run
    objs = run.ctx.objs
    # seen from its parent a nested scheduler is a single job: it waits for
    # its requirements, is waited for, and takes one slot of the window
    for v in c01(hist):
        if 'sched-requirement' in v.site or 'nestedjob' in v.site:
            out.append(Violation('C10', 'as-one-job:' + v.clause, v.site,
                                 v.msg))
    for v in c07(hist) + c12(hist):
        if v.nested:
            out.append(Violation('C10', 'as-one-job:' + v.clause, v.site,
                                 v.msg))
    for sid in hist.sched_ids():
        parent = hist.parents[sid]
        if parent is None:
            continue
        sr = hist.sr(sid)
        if not sr.ended_by_itself():
            continue
        psr = hist.sr(parent['id'])
        tup = run.post.get(sid)
        failed = sr.verdict == 'fail'
        crit = sr.spec['critical']
        site = ('critical' if crit else 'noncritical') + \
            ('-failed' if failed else '-ok')
        if not failed:
            if sr.over[2] != 'ret':
                continue
            if tup and tup[0] != 'error' and tup[3] and tup[5] is not True:
                out.append(Violation(
                    'C10', 'nested-result', site,
                    "{} succeeded but its result() is {!r}".format(sid,
                                                                   tup[5])))
            continue
        if not crit:
            # contained: the parent reads False and carries on
            if sr.over[2] != 'ret' or sr.value is not False:
                out.append(Violation(
                    'C10', 'noncritical-nested-not-contained', site,
                    "{} failed but did not return False ({} {!r})"
                    .format(sid, sr.over[2], sr.value)))
                continue
            if tup and tup[0] != 'error':
                if not tup[3] or tup[5] is not False or tup[4]:
                    out.append(Violation(
                        'C10', 'nested-result', site,
                        "{} failed (non-critical): done={} result={!r} "
                        "exception={!r}".format(sid, tup[3], tup[5], tup[4])))
            # the parent must not treat it as a critical failure
            if psr.crit is not None and psr.crit[2] == sid:
                out.append(Violation(
                    'C10', 'noncritical-nested-aborts-parent', site,
                    "parent {} aborted on {}".format(parent['id'], sid)))
            if stats is not None:
                stats['contained_failures'] = \
                    stats.get('contained_failures', 0) + 1
            continue
        # critical nested scheduler that failed: raises, parent aborts
        if sr.over[2] != 'exc':
            continue                          # C04 reports the form
        exc = sr.value
        if tup and tup[0] != 'error' and tup[4] is not exc:
            out.append(Violation(
                'C10', 'nested-exception', site,
                "{} raised {!r} but raised_exception() is {!r}".format(
                    sid, exc, tup[4])))
        if psr.over is not None and psr.over[2] != 'cancelled':
            tie = psr.exp_t is not None and psr.exp_t <= sr.over[1]
            other = any(mh.nid != sid and mh.spec['critical'] and
                        any(k in ('exc', 'cexc') for _, _, k in mh.exits)
                        for mh in psr.mh)
            if psr.verdict == 'success':
                out.append(Violation(
                    'C10', 'critical-nested-failure-ignored', site,
                    "{} raised but parent {} reported success".format(
                        sid, parent['id'])))
            elif not tie and not other and psr.cause == 'critical':
                # same object bubbles through critical ancestors
                pspec = psr.spec
                if pspec['cls'] == 'Scheduler' and pspec['critical'] \
                        and psr.over[2] == 'exc' and psr.value is not exc:
                    out.append(Violation(
                        'C10', 'exception-identity-lost', site,
                        "{} raised {!r} but critical parent {} raised {!r}"
                        .format(sid, exc, parent['id'], psr.value)))
                if stats is not None:
                    stats['propagated_failures'] = \
                        stats.get('propagated_failures', 0) + 1
    return out


ORACLES = {
    'C01': c01, 'C02': c02, 'C03': c03, 'C04': c04, 'C05': c05, 'C07': c07,
    'C08': c08, 'C09': c09, 'C10': c10, 'C11': c11, 'C12': c12, 'C13': c13,
    'C14': c14,
}


def evaluate(run, props=None, stats=None):
    """returns dict prop -> [Violation]; harness problems raise"""
    hist = History(run)
    res = {}
    for prop, fn in ORACLES.items():
        if props is not None and prop not in props:
            continue
        try:
            if fn in (c01, c02, c03, c04):
                res[prop] = fn(hist)
            else:
                res[prop] = fn(hist, stats)
        except Exception:
            raise
    return res, hist
