"""which engine serves which property"""

from .cases import RUNTIME_PROPS

HISTORY_PROPS = ('C15', 'C16', 'C17', 'C18', 'C19')


def dispatch(args):
    if args.prop in RUNTIME_PROPS:
        from .driver import dispatch_runtime
        return dispatch_runtime(args)
    if args.prop in HISTORY_PROPS:
        from .driver import dispatch_runtime
        return dispatch_runtime(args)
    print("no check for property {} (see MANIFEST.json not_applicable)"
          .format(args.prop))
    return 2
