"""
Scenario specs: JSON-able trees, how they are turned into library objects, and the
admissibility predicate (the preconditions written in the properties).

sched = {"id", "kind": "sched", "cls": "Scheduler"|"PureScheduler",
         "critical", "forever", "window": None|int, "timeout": None|float,
         "sd_timeout": None|float, "verbose": bool,
         "members": [sched|job...], "edges": [[i, j]...]  (member j requires i),
         "build": "ctor"|"add"|"scheduler_kw"|"sequence"}
job   = {"id", "kind": "job", "cls": "abstract"|"coro", "critical", "forever",
         "script": [["sleep", d]|["yield", k]...],
         "outcome": "ret"|"exc"|"never_fut"|"never_tick",
         "cleanup": [steps], "handler": [steps]|"never"}
"""

import copy


def is_sched(node):
    return node['kind'] == 'sched'


def walk(node, parent=None, depth=0):
    """yields (node, parent, depth) for the whole tree, parents first"""
    yield node, parent, depth
    if is_sched(node):
        for member in node['members']:
            yield from walk(member, node, depth + 1)


def index(top):
    """returns dict nid -> node, dict nid -> parent node (None for top)"""
    nodes, parents = {}, {}
    for node, parent, _ in walk(top):
        nodes[node['id']] = node
        parents[node['id']] = parent
    return nodes, parents


def requirements(sched):
    """dict member-id -> set of member-ids it requires (direct members only)"""
    ids = [m['id'] for m in sched['members']]
    req = {i: set() for i in ids}
    for a, b in sched['edges']:
        req[ids[b]].add(ids[a])
    return req


def script_time(steps):
    if not steps or steps == 'never':
        return 0.0
    # (a "guard" step [d, c]: an operation bounded by asyncio.timeout(d) that
    # needs c to clean up once given up on - the step takes d + c)
    return sum(arg if op == 'sleep' else sum(arg) if op == 'guard' else 0
               for op, arg in steps)


def never_ends_alone(job):
    return job['outcome'] in ('never_fut', 'never_tick')


# ---------------------------------------------------------------- build

def build(top, ctx):
    """create the library objects for a spec; returns the top-level scheduler"""
    from . import workload as w
    from .lib import Sequence

    def common_job_kwds(node):
        crit = node['critical']
        if node.get('crit_method') or node.get('crit_late'):
            # is_critical() is overridden / the attribute is assigned once the
            # run has begun: workload.py
            crit = not crit
        return dict(forever=node['forever'], critical=crit)

    def make_job(node, **kwds):
        cls = w.SimJob if node['cls'] == 'abstract' else w.SimCoroJob
        return cls(ctx, node, **common_job_kwds(node), **kwds)

    def shaped(node, objs):
        # the shapes a requirement argument may take
        shape = node.get('req_shape')
        if shape == 'bare' and len(objs) == 1:
            return objs[0]
        if shape == 'iter':
            return (obj for obj in objs)        # can be walked only once
        if shape == 'nested':
            return [tuple(objs[:1]), None, set(objs[1:])]
        return objs

    def make(node, is_top, **kwds):
        if not is_sched(node):
            return make_job(node, **kwds)
        sk = dict(jobs_window=node['window'], timeout=node['timeout'],
                  shutdown_timeout=node['sd_timeout'],
                  verbose=node['verbose'])
        if node.get('watch'):
            from .lib import asynciojobs
            sk['watch'] = asynciojobs.Watch() if node['watch'] == 'default' \
                else asynciojobs.Watch(show_elapsed=False)
        late = None
        if node.get('late_attrs'):
            # the documented attributes assigned after construction
            # (the constructor gets other values, or none at all)
            late, sk = sk, dict(node.get('ctor_attrs') or {})
        if node['cls'] == 'PureScheduler':
            assert is_top
            cls, jk = w.SimPureScheduler, {}
        else:
            cls = w.SimScheduler
            jk = common_job_kwds(node)
            jk.update(kwds)
        members = node['members']
        reqs = [[] for _ in members]
        for a, b in node['edges']:
            reqs[b].append(a)
        style = node.get('build', 'ctor')
        if style == 'sequence' and not _is_chain(node):
            style = 'ctor'
        if style == 'ctor':
            # members first (edges go from lower to higher index)
            objs = []
            for i, m in enumerate(members):
                objs.append(make(m, False, required=shaped(
                    m, [objs[a] for a in reqs[i]])))
            return _late(cls(*objs, ctx=ctx, spec=node, **sk, **jk), late)
        if style == 'sequence':
            objs = [make(m, False) for m in members]
            return _late(cls(Sequence(*objs), ctx=ctx, spec=node, **sk, **jk),
                         late)
        sched = _late(cls(ctx=ctx, spec=node, **sk, **jk), late)
        objs = []
        if style == 'add':
            for i, m in enumerate(members):
                obj = make(m, False)
                objs.append(obj)
            # requirements afterwards, in various argument shapes
            for i, obj in enumerate(objs):
                if reqs[i]:
                    obj.requires(shaped(members[i],
                                        [objs[a] for a in reqs[i]]))
            for i, obj in enumerate(objs):
                if i % 2:
                    sched.add(obj)
                elif i % 4 == 0:
                    sched.update([obj, None, obj])      # twice: once is enough
                else:
                    sched.update([obj])
        else:                                           # scheduler_kw
            for i, m in enumerate(members):
                objs.append(make(m, False, scheduler=sched, required=shaped(
                    m, tuple(objs[a] for a in reqs[i]))))
        return sched

    obj = make(top, True)
    ctx.top = obj
    for node, parent, _ in walk(top):
        if parent is not None:
            ctx.parent_of[node['id']] = parent['id']
    return obj


def _late(sched, late):
    if late:
        sched.jobs_window = late['jobs_window']
        sched.timeout = late['timeout']
        sched.shutdown_timeout = late['shutdown_timeout']
        sched.verbose = late['verbose']
    return sched


def _is_chain(sched):
    n = len(sched['members'])
    edges = sorted(map(tuple, sched['edges']))
    return n >= 1 and edges == [(i, i + 1) for i in range(n - 1)]


# ---------------------------------------------------------------- analysis

def can_end(node, under_timeout=False):
    """
    Can this node's body end by itself (without being cancelled)?
    A job: unless its outcome is never_*. A scheduler: if it has a timeout, yes;
    otherwise iff it is empty or all its non-forever members can end and it has
    at least one non-forever member (see admissible()).
    """
    if not is_sched(node):
        return not never_ends_alone(node)
    if node['timeout'] is not None:
        return True
    if not node['members']:
        return True
    finite = [m for m in node['members'] if not m['forever']]
    return bool(finite) and all(can_end(m) for m in finite)


def admissible(top, why=None):
    """
    The preconditions of C03 (first sentence) plus the structural ones common
    to all properties. Returns True/False; when `why` is a list, reasons are
    appended.

    * edges acyclic by construction (i < j), closed by construction
    * a job is in exactly one scheduler by construction
    * every scheduler without a timeout owns >= 1 non-forever job (or is empty)
    * under a scheduler without timeout, no non-forever member is, or
      transitively requires, a member that cannot end; under a scheduler with a
      timeout anything goes ("terminates whatever its jobs do")
    * each window is larger than the number of never-ending members it may
      hold (forever or not); windows are >= 1 or None/0
    * a never-returning shutdown handler only under a scheduler with a
      shutdown_timeout that is not None (every scheduler that may broadcast to
      it: its own scheduler - and the relays above it are bounded as well)
    """
    ok = True

    def bad(msg):
        nonlocal ok
        ok = False
        if why is not None:
            why.append(msg)

    def visit(node, parent, covered):
        """covered: an enclosing scheduler (or this one) has a timeout, so
        termination does not depend on what is inside"""
        if not is_sched(node):
            if node.get('handler') == 'never' and parent['sd_timeout'] is None:
                bad("never-returning handler without shutdown_timeout: "
                    + node['id'])
            return
        members = node['members']
        n = len(members)
        for a, b in node['edges']:
            if not (0 <= a < b < n):
                bad("edge not forward in " + node['id'])
        if len({tuple(e) for e in node['edges']}) != len(node['edges']):
            bad("duplicate edge in " + node['id'])
        win = node['window']
        if win is not None and (not isinstance(win, int) or win < 0):
            bad("window < 0")
        covered = covered or node['timeout'] is not None
        if members and not covered:
            finite = [m for m in members if not m['forever']]
            if not finite:
                bad("no non-forever job and no timeout in " + node['id'])
            req = requirements(node)
            byid = {m['id']: m for m in members}
            # upstream closure of the non-forever members must be able to end
            seen = set()
            todo = [m['id'] for m in finite]
            while todo:
                cur = todo.pop()
                if cur in seen:
                    continue
                seen.add(cur)
                if not can_end(byid[cur]):
                    bad("non-forever job depends on never-ending " + cur)
                todo.extend(req[cur])
            if win:
                stuck = sum(1 for m in members if not can_end(m))
                if win <= stuck:
                    bad("window {} not larger than {} never-ending jobs in {}"
                        .format(win, stuck, node['id']))
        for member in members:
            visit(member, node, covered)

    visit(top, None, False)
    return ok


def must_terminate(top):
    """C03: is termination of the top-level run required by the statement?"""
    return admissible(top)


def horizon(top):
    """
    A sound upper bound on the virtual duration of any correct run: with work
    conservation a run lasts at most the sum of all durations, cleanups, handler
    times and timeouts in the tree. Factor 2 and 10 s of slack on top.
    """
    total = 0.0
    for node, _, _ in walk(top):
        if is_sched(node):
            total += (node['timeout'] or 0.0) + (node['sd_timeout'] or 0.0)
        else:
            total += script_time(node['script'])
            total += script_time(node.get('cleanup'))
            total += script_time(node.get('handler'))
    return 2 * total + 10.0


def clone(spec):
    return copy.deepcopy(spec)
