"""
Metamorphic twin runs: C06 (return <-> raise), C08 (b) (timeout with no effect),
C10 (c) (nested tree <-> flattened graph).

Twins are run with the neutral tie order (timer creation order) and without
stalls; only virtual times are compared, never sequence numbers. A pair is
judged only if in both logs no closing trigger (expiry, critical raise) shares
its instant with another enter/exit event of the same scheduler; otherwise it is
skipped and counted as such.
"""

from . import spec as S
from .history import History, INF
from .oracles import Violation, returned
from .runner import run_spec


def twin_knobs(knobs):
    k = dict(knobs)
    k['tie_shuffle'] = False
    k['stall_den'] = 0
    k['noise'] = 0
    return k


def _origin(hist, sr, mid):
    """the atomic job whose raise started the chain that made member mid of sr
    raise (mid itself when atomic; None for a nested timeout)"""
    h = hist.nodes[mid]
    if not h.is_sched:
        return mid
    sub = hist.sr(mid)
    if sub.crit is not None and sub.over is not None \
            and sub.crit[1] == sub.over[1]:
        return _origin(hist, sub, sub.crit[2])
    return None


def _trigger_times(sr):
    times = set()
    if sr.exp_t not in (None, INF):
        times.add(sr.exp_t)
    if sr.crit is not None:
        times.add(sr.crit[1])
    if sr.fin is not None and not sr.degenerate:
        times.add(sr.fin[1])
    return times


def nested_trigger_tie(hist):
    """a scheduler's closing trigger in the very instant in which a scheduler
    nested below it (and not the cause of that trigger) has one of its own:
    whether the nested run gets to handle its own trigger before it is
    cancelled depends on the order of the instant"""
    for sid in hist.sched_ids():
        sr = hist.sr(sid)
        if sr.begin is None:
            continue
        trig = []           # (time, ids of the members that caused it)
        if sr.exp_t not in (None, INF):
            trig.append((sr.exp_t, ()))
        if sr.crit is not None:
            trig.append((sr.crit[1], (sr.crit[2],)))
        if sr.fin is not None and not sr.degenerate:
            trig.append((sr.fin[1], tuple(
                mh.nid for mh in sr.finite
                if mh.finished() and mh.finished()[1] == sr.fin[1])))
        for t, causes in trig:
            excluded = set()
            for cid in causes:
                excluded.update(hist.subtree_ids(cid, include_self=True))
            for did in hist.subtree_ids(sid):
                dh = hist.nodes[did]
                if not dh.is_sched or did in excluded:
                    continue
                dsr = hist.sr(did)
                if dsr.begin is not None and t in _trigger_times(dsr):
                    return True
    return False


def tie_at_trigger(hist):
    """does some closing trigger (expiry, critical raise) share its instant
    with another job event (start, or end by return/raise) anywhere below the
    scheduler it closes?"""
    if nested_trigger_tie(hist):
        return True
    for sid in hist.sched_ids():
        sr = hist.sr(sid)
        if sr.begin is None:
            continue
        trig = []
        if sr.exp_t not in (None, INF):
            trig.append((sr.exp_t, None))
            if sr.begin[1] == sr.exp_t:
                return True
        for mh in sr.mh:
            if mh.spec['critical']:
                for seq, t, kind in mh.exits:
                    if kind == 'exc':
                        trig.append((t, _origin(hist, sr, mh.nid)))
        # the last regular completion closes the run and cancels the forever
        # jobs: what a forever job (or anything below it) does in that very
        # instant may or may not still happen
        if sr.fin is not None and not sr.degenerate:
            for mh in sr.mh:
                if not mh.spec['forever']:
                    continue
                for nid in hist.subtree_ids(mh.nid, include_self=True):
                    h = hist.nodes[nid]
                    if h.is_sched:
                        continue
                    if any(t == sr.fin[1] for _, t in h.enters) or any(
                            t == sr.fin[1] and kind not in ('cancelled',
                                                            'cexc', 'cret')
                            for _, t, kind in h.exits):
                        return True
        if not trig:
            continue
        sub = [hist.nodes[n] for n in hist.subtree_ids(sid)]
        for t_trig, origin in trig:
            for h in sub:
                if h.is_sched:
                    continue
                for _, t in h.enters:
                    if t == t_trig:
                        return True
                for _, t, kind in h.exits:
                    if t == t_trig and kind not in ('cancelled', 'cexc',
                                                    'cret') \
                            and h.nid != origin:
                        return True
    return False


def trigger_tie(hist):
    """two different closing triggers of one scheduler in the same instant:
    then even the verdict depends on the order of the instant"""
    if nested_trigger_tie(hist):
        return True
    for sid in hist.sched_ids():
        sr = hist.sr(sid)
        if sr.begin is None:
            continue
        times = []
        if sr.exp_t not in (None, INF):
            times.append(('exp', sr.exp_t, None))
        if sr.crit is not None:
            times.append(('crit', sr.crit[1], sr.crit[2]))
        if sr.fin is not None and not sr.degenerate:
            last = [mh.nid for mh in sr.finite
                    if mh.finished() and mh.finished()[1] == sr.fin[1]]
            times.append(('fin', sr.fin[1], last))
        for i, (ka, ta, wa) in enumerate(times):
            for kb, tb, wb in times[i + 1:]:
                if ta != tb:
                    continue
                if {ka, kb} == {'crit', 'fin'}:
                    who = wa if ka == 'crit' else wb
                    last = wb if ka == 'crit' else wa
                    if last == [who]:
                        continue        # one and the same event
                return True
        # a second critical raise in the instant of the first
        crit_times = [t for mh in sr.mh if mh.spec['critical']
                      for _, t, k in mh.exits if k == 'exc']
        if len(crit_times) != len(set(crit_times)):
            return True
    return False


def contention(hist):
    """did demand ever exceed capacity in a windowed scheduler (so that who
    gets a slot is a scheduling decision)"""
    for sid in hist.sched_ids():
        sr = hist.sr(sid)
        if sr.begin is None or not sr.window:
            continue
        evs = []
        for mh in sr.mh:
            reqs = sr.req[mh.nid]
            if not reqs:
                elig = sr.begin
            else:
                fins = [hist.nodes[r].finished() for r in reqs]
                elig = None if any(f is None for f in fins) else max(fins)
            if elig is None:
                continue
            evs.append((elig[0], +1))
            if mh.exits:
                evs.append((mh.exits[0][0], -1))
        evs.sort()
        demand = 0
        for _, delta in evs:
            demand += delta
            if demand > sr.window:
                return True
    return False


def timeline(hist, base):
    out = {}
    for nid, h in hist.nodes.items():
        ent = h.enter[1] - base if h.enter else None
        if h.exit:
            out[nid] = (ent, h.exit[1] - base, h.exit[2])
        else:
            out[nid] = (ent, None, None)
    return out


def verdicts(hist, with_origin=True):
    """with_origin: also which job's exception a critical scheduler re-raised
    (when several critical jobs hold an exception the library picks one by set
    iteration order: only comparable between runs with the same hash salt)"""
    out = {}
    for sid in hist.sched_ids():
        sr = hist.sr(sid)
        out[sid] = (sr.over[2] if sr.over else None,
                    sr.value if sr.over and sr.over[2] == 'ret' else
                    ((type(sr.value).__name__, getattr(sr.value, 'nid', None))
                     if with_origin else 'some-exception')
                    if sr.over else None,
                    bool(sr.fto), bool(sr.fc), sr.why)
    return out


def _has(top, pred):
    return any(pred(n) for n, _, _ in S.walk(top))


# ------------------------------------------------------------------ C06

def c06_candidates(top):
    """non-critical atomic jobs that return: those can be switched to raise"""
    return [n['id'] for n, _, _ in S.walk(top)
            if not S.is_sched(n) and not n['critical']
            and n['outcome'] == 'ret']


def c06(case, stats):
    top, knobs = case['spec'], twin_knobs(case['knobs'])
    switch = case['aux'].get('switch')
    how = case['aux'].get('switch_kind', 'outcome')
    nodes, _ = S.index(top)
    if switch not in nodes or S.is_sched(nodes[switch]) \
            or nodes[switch]['critical']:
        return [], None, None
    top_b = S.clone(top)
    nodes_b, _ = S.index(top_b)
    if how == 'self_cancel':
        # ends with a CancelledError of its own instead of returning; only
        # for a job nobody requires
        if nodes[switch]['outcome'] != 'ret' or any(
                _is_successor(top, switch, other) for other in nodes):
            return [], None, None
        nodes_b[switch]['outcome'] = 'self_cancel'
    elif how == 'cleanup':
        # raises from its cancellation handler instead of ending cancelled
        if nodes[switch].get('cleanup_outcome') == 'exc':
            return [], None, None
        nodes_b[switch]['cleanup_outcome'] = 'exc'
    else:
        if nodes[switch]['outcome'] != 'ret':
            return [], None, None
        nodes_b[switch]['outcome'] = 'exc'
    run_a = run_spec(top, knobs, case.get('choices'))
    run_b = run_spec(top_b, knobs, case.get('choices'))
    for run in (run_a, run_b):
        if run.harness_error:
            raise RuntimeError(run.harness_error)
    hist_a, hist_b = History(run_a), History(run_b)
    out = []
    base = knobs['base']
    windowed = _has(top, lambda n: S.is_sched(n) and n['window'])
    site = 'windowed' if windowed else 'unwindowed'
    if any(S.is_sched(n) and p is not None for n, p, _ in S.walk(top)):
        site += '-nested'
    if not returned(run_a):
        stats['skipped_base_run_stuck'] = \
            stats.get('skipped_base_run_stuck', 0) + 1
        return [], run_a, run_b
    if not returned(run_b):
        out.append(Violation(
            'C06', 'raising-variant-does-not-terminate', site,
            "with {} raising instead of returning the run ends in {} ({})"
            .format(switch, run_b.outcome, run_b.value)))
        return out, run_a, run_b
    if tie_at_trigger(hist_a) or tie_at_trigger(hist_b):
        # what starts or ends in a closing instant is order dependent; the
        # verdicts are not, unless two triggers themselves coincide
        if trigger_tie(hist_a) or trigger_tie(hist_b):
            stats['skipped_tie_at_trigger'] = \
                stats.get('skipped_tie_at_trigger', 0) + 1
            return [], run_a, run_b
        stats['judged_verdicts_only'] = \
            stats.get('judged_verdicts_only', 0) + 1
        va, vb = verdicts(hist_a, False), verdicts(hist_b, False)
        if va != vb:
            out.append(Violation(
                'C06', 'verdict-affected', site + '-tie',
                "verdicts {} when {} returns but {} when it raises".format(
                    va, switch, vb)))
        return out, run_a, run_b
    contended = contention(hist_a) or contention(hist_b)
    if contended:
        timed = _has(top, lambda n: S.is_sched(n) and n['timeout'] is not None)
        crit = _has(top, lambda n: n['critical'] and (
            S.is_sched(n) or n['outcome'] == 'exc'))
        if timed or crit:
            stats['skipped_contended_time_dependent'] = \
                stats.get('skipped_contended_time_dependent', 0) + 1
            return [], run_a, run_b
        stats['judged_reduced'] = stats.get('judged_reduced', 0) + 1
    else:
        stats['judged_full'] = stats.get('judged_full', 0) + 1
    tl_a, tl_b = timeline(hist_a, base), timeline(hist_b, base)
    for nid in tl_a:
        a, b = tl_a[nid], tl_b[nid]
        if nid == switch:
            if (a[0], a[1]) != (b[0], b[1]) and not contended:
                out.append(Violation(
                    'C06', 'switched-job-timing', site,
                    "{} ran {} when returning but {} when raising".format(
                        nid, a, b)))
            continue
        if contended:
            same = (a[0] is None) == (b[0] is None) and a[2] == b[2]
        else:
            same = a == b
        if not same:
            kind = 'successor' if _is_successor(top, switch, nid) else 'other'
            out.append(Violation(
                'C06', 'other-job-affected:' + kind, site,
                "{}: (enter, exit, kind) = {} when {} returns but {} when it "
                "raises".format(nid, a, switch, b)))
    va, vb = verdicts(hist_a), verdicts(hist_b)
    if va != vb:
        out.append(Violation(
            'C06', 'verdict-affected', site,
            "verdicts {} when {} returns but {} when it raises".format(
                va, switch, vb)))
    if (run_a.outcome, _v(run_a.value)) != (run_b.outcome, _v(run_b.value)):
        out.append(Violation(
            'C06', 'verdict-affected', site,
            "run() gives {} {} vs {} {}".format(
                run_a.outcome, _v(run_a.value), run_b.outcome,
                _v(run_b.value))))
    # results of the other jobs, and the exception of the switched one
    for nid, tup_a in run_a.post.items():
        tup_b = run_b.post.get(nid)
        if nid == switch or tup_a[0] == 'error' or tup_b is None \
                or tup_b[0] == 'error':
            continue
        if tup_a[3] != tup_b[3] or (tup_a[4] is None) != (tup_b[4] is None):
            out.append(Violation(
                'C06', 'other-job-affected:result', site,
                "{} after the run: done/exception {} vs {}".format(
                    nid, (tup_a[3], tup_a[4]), (tup_b[3], tup_b[4]))))
    hb = hist_b.nodes[switch]
    if how == 'outcome' and hb.finished() is not None:
        tup = run_b.post.get(switch)
        want = run_b.ctx.objs.get(switch, {}).get('exc')
        if tup is not None and tup[0] != 'error' and (
                not tup[3] or tup[4] is not want):
            out.append(Violation(
                'C06', 'exception-not-retrievable', site,
                "{} raised {!r} but is_done()={} raised_exception()={!r}"
                .format(switch, want, tup[3], tup[4])))
    return out, run_a, run_b


def _v(x):
    return x if isinstance(x, (bool, type(None), str)) else type(x).__name__


def _is_successor(top, a, b):
    for node, _, _ in S.walk(top):
        if S.is_sched(node):
            req = S.requirements(node)
            if b in req and a in req[b]:
                return True
    return False


# ------------------------------------------------------------------ C08 (b)

def c08b(case, run, hist, stats):
    """for every scheduler whose jobs all finished strictly before its expiry
    (and that succeeded): the same tree without that timeout must behave
    identically"""
    out = []
    top = case['spec']
    cands = []
    for sid in hist.sched_ids():
        sr = hist.sr(sid)
        if sr.timeout is None or sr.begin is None or sr.fin is None \
                or sr.exp_t is None or sr.verdict != 'success':
            continue
        if sr.fin[1] < sr.exp_t and sr.over[1] < sr.exp_t:
            cands.append(sid)
    if not cands:
        return out
    knobs = twin_knobs(case['knobs'])
    base = knobs['base']
    run_a = run_spec(top, knobs)
    hist_a = History(run_a)
    if not returned(run_a) or tie_at_trigger(hist_a):
        stats['skipped_tie_at_trigger'] = \
            stats.get('skipped_tie_at_trigger', 0) + 1
        return out
    tl_a, va = timeline(hist_a, base), verdicts(hist_a)
    for sid in cands:
        sra = hist_a.sr(sid)
        if sra.fin is None or sra.verdict != 'success' \
                or not sra.fin[1] < sra.exp_t or not sra.over[1] < sra.exp_t:
            continue
        top_b = S.clone(top)
        S.index(top_b)[0][sid]['timeout'] = None
        if not S.admissible(top_b):
            continue
        run_b = run_spec(top_b, knobs)
        hist_b = History(run_b)
        if not returned(run_b):
            out.append(Violation(
                'C08', 'timeout-without-effect:twin-stuck', 'twin',
                "without the timeout on {} the run ends in {}".format(
                    sid, run_b.outcome)))
            continue
        if tie_at_trigger(hist_b):
            stats['skipped_tie_at_trigger'] = \
                stats.get('skipped_tie_at_trigger', 0) + 1
            continue
        stats['twin_no_effect_judged'] = \
            stats.get('twin_no_effect_judged', 0) + 1
        tl_b, vb = timeline(hist_b, base), verdicts(hist_b)
        if tl_a != tl_b:
            diff = {n: (tl_a[n], tl_b[n]) for n in tl_a if tl_a[n] != tl_b[n]}
            out.append(Violation(
                'C08', 'timeout-without-effect:timing', 'twin',
                "all jobs of {} finish before its timeout {}, yet removing the "
                "timeout changes {}".format(sid, sra.timeout, diff)))
        elif va != vb:
            out.append(Violation(
                'C08', 'timeout-without-effect:verdict', 'twin',
                "removing the unused timeout of {} changes verdicts {} -> {}"
                .format(sid, va, vb)))
    return out


# ------------------------------------------------------------------ C10 (c)

def flattenable(top):
    """preconditions of the flattening twin"""
    nested = 0
    for node, parent, _ in S.walk(top):
        if S.is_sched(node):
            if node['window']:
                return False
            if parent is not None:
                nested += 1
                if (not node['critical'] or node['timeout'] is not None
                        or node['forever']
                        or any(m['forever'] for m in node['members'])):
                    return False
        else:
            if S.script_time(node.get('handler')) or \
                    node.get('handler') == 'never':
                return False
            # a nested run that aborts waits for its cancelled jobs before it
            # raises: with a slow cleanup the parent legitimately learns of
            # the failure later than the flattened graph does
            if S.script_time(node.get('cleanup')):
                return False
    return nested > 0


def flatten(top):
    """entry jobs of N inherit N's requirements; jobs requiring N require N's
    exit jobs; an empty N is bypassed"""
    top = S.clone(top)

    def flat(node):
        """returns (members, req) with req: dict id -> set(ids), all atomic"""
        members, req = [], {}
        entries, exits = {}, {}       # per original member id
        ids = [m['id'] for m in node['members']]
        oreq = S.requirements(node)
        for m in node['members']:
            if S.is_sched(m):
                sub_members, sub_req = flat(m)
                members += sub_members
                req.update(sub_req)
                sub_ids = [x['id'] for x in sub_members]
                required_by_someone = set()
                for r in sub_req.values():
                    required_by_someone |= r
                entries[m['id']] = [i for i in sub_ids if not sub_req[i]]
                exits[m['id']] = [i for i in sub_ids
                                  if i not in required_by_someone]
                if not sub_ids:
                    entries[m['id']] = exits[m['id']] = None    # bypass
            else:
                members.append(m)
                req[m['id']] = set()
                entries[m['id']] = exits[m['id']] = [m['id']]

        def exit_ids(mid, seen=()):
            if exits[mid] is not None:
                return set(exits[mid])
            out = set()                   # empty scheduler: look through
            for r in oreq[mid]:
                out |= exit_ids(r)
            return out
        for mid in ids:
            if entries[mid] is None:
                continue
            for r in oreq[mid]:
                for ent in entries[mid]:
                    req[ent] |= exit_ids(r)
        return members, req

    members, req = flat(top)
    pos = {m['id']: i for i, m in enumerate(members)}
    # order members so that edges go forward (topological by construction of
    # ids is not guaranteed): sort by a DFS order
    order, seen = [], set()

    def visit(i):
        if i in seen:
            return
        seen.add(i)
        for r in sorted(req[i], key=pos.get):
            visit(r)
        order.append(i)
    for m in members:
        visit(m['id'])
    byid = {m['id']: m for m in members}
    newpos = {i: k for k, i in enumerate(order)}
    top['members'] = [byid[i] for i in order]
    top['edges'] = sorted([newpos[r], newpos[i]] for i in order
                          for r in req[i])
    top['build'] = 'ctor'
    return top


def c10c(case, stats):
    top, knobs = case['spec'], twin_knobs(case['knobs'])
    if not flattenable(top):
        return [], None, None
    flat = flatten(top)
    run_a = run_spec(top, knobs)
    run_b = run_spec(flat, knobs)
    for run in (run_a, run_b):
        if run.harness_error:
            raise RuntimeError(run.harness_error)
    if not returned(run_a) or not returned(run_b):
        if returned(run_a) != returned(run_b):
            return [Violation(
                'C10', 'flatten:termination', 'twin',
                "nested tree: {} / flattened graph: {}".format(
                    run_a.outcome, run_b.outcome))], run_a, run_b
        return [], run_a, run_b
    hist_a, hist_b = History(run_a), History(run_b)
    if tie_at_trigger(hist_a) or tie_at_trigger(hist_b):
        stats['skipped_tie_at_trigger'] = \
            stats.get('skipped_tie_at_trigger', 0) + 1
        return [], run_a, run_b
    stats['flatten_judged'] = stats.get('flatten_judged', 0) + 1
    base = knobs['base']
    tl_a, tl_b = timeline(hist_a, base), timeline(hist_b, base)
    out = []
    for nid, b in tl_b.items():
        if nid == flat['id']:
            continue
        if tl_a[nid] != b:
            out.append(Violation(
                'C10', 'flatten:job-timing', 'twin',
                "{} runs (enter, exit, kind) = {} nested but {} in the "
                "flattened graph".format(nid, tl_a[nid], b)))
    ok_a = run_a.outcome == 'ret' and run_a.value is True
    ok_b = run_b.outcome == 'ret' and run_b.value is True
    if ok_a != ok_b or run_a.outcome != run_b.outcome:
        out.append(Violation(
            'C10', 'flatten:verdict', 'twin',
            "nested tree gives {} {!r}, flattened graph {} {!r}".format(
                run_a.outcome, _v(run_a.value), run_b.outcome,
                _v(run_b.value))))
    return out, run_a, run_b


# ------------------------------------------------------------------ C12 twin

def permuted(top, rng):
    """the same tree with the members of every scheduler inserted in another
    (still requirement-compatible) order and built in another style"""
    top = S.clone(top)
    for node, _, _ in S.walk(top):
        if not S.is_sched(node) or len(node['members']) < 2:
            continue
        n = len(node['members'])
        req = {i: set() for i in range(n)}
        for a, b in node['edges']:
            req[b].add(a)
        order, placed = [], set()
        while len(order) < n:
            ready = [i for i in range(n) if i not in placed
                     and req[i] <= placed]
            pick = rng.choice(ready)
            order.append(pick)
            placed.add(pick)
        newpos = {old: new for new, old in enumerate(order)}
        node['members'] = [node['members'][old] for old in order]
        node['edges'] = sorted([newpos[a], newpos[b]]
                               for a, b in node['edges'])
        node['build'] = rng.choice(('ctor', 'add', 'scheduler_kw'))
    return top


def c12p(case, stats):
    """C12: 'the order in which jobs were added never changes when jobs run'
    (unwindowed schedulers): same per-job timeline under another insertion
    order, construction style and set iteration order"""
    import random
    top, knobs = case['spec'], twin_knobs(case['knobs'])
    if _has(top, lambda n: S.is_sched(n) and n['window']):
        return [], None, None
    rng = random.Random(case['aux'].get('perm_seed', 0))
    top_b = permuted(top, rng)
    knobs_b = dict(knobs)
    knobs_b['salt'] = knobs['salt'] ^ 0x5bd1e995
    run_a = run_spec(top, knobs)
    run_b = run_spec(top_b, knobs_b)
    for run in (run_a, run_b):
        if run.harness_error:
            raise RuntimeError(run.harness_error)
    if not returned(run_a) or not returned(run_b):
        if returned(run_a) != returned(run_b):
            return [Violation(
                'C12', 'insertion-order:termination', 'twin',
                "{} vs {} under another insertion order".format(
                    run_a.outcome, run_b.outcome))], run_a, run_b
        return [], run_a, run_b
    hist_a, hist_b = History(run_a), History(run_b)
    if tie_at_trigger(hist_a) or tie_at_trigger(hist_b):
        stats['skipped_tie_at_trigger'] = \
            stats.get('skipped_tie_at_trigger', 0) + 1
        return [], run_a, run_b
    stats['insertion_twin_judged'] = stats.get('insertion_twin_judged', 0) + 1
    base = knobs['base']
    tl_a, tl_b = timeline(hist_a, base), timeline(hist_b, base)
    out = []
    for nid in tl_a:
        if tl_a[nid] != tl_b[nid]:
            out.append(Violation(
                'C12', 'insertion-order:job-timing', 'twin',
                "{} runs (enter, exit, kind) = {} but {} when jobs are added "
                "in another order".format(nid, tl_a[nid], tl_b[nid])))
            break
    if verdicts(hist_a, False) != verdicts(hist_b, False):
        out.append(Violation(
            'C12', 'insertion-order:verdict', 'twin',
            "{} vs {}".format(verdicts(hist_a, False),
                              verdicts(hist_b, False))))
    return out, run_a, run_b
