"""
Engine B glue: the same interface as cases.py (gen_cases / evaluate_case /
candidates / valid / digest / sample) for API-call histories.
"""

import copy
import hashlib

from .hgen import gen_history
from .hrun import run_history, show_history

HISTORY_PROPS = ('C15', 'C16', 'C17', 'C18', 'C19')

NONTRIVIAL = {
    'C15': ('cyclic_graphs',),
    'C16': ('sanitize_with_dangling',),
    'C17': ('multi_start_queries',),
    'C18': ('surgery_steps',),
    'C19': ('construction_steps',),
}


def gen_cases(prop, seed):
    return [gen_history(seed, prop)]


class HResult:
    __slots__ = ('violations', 'stats', 'shape', 'nontrivial', 'run',
                 'extra_runs', 'vtime', 'log')


def evaluate_case(prop, case):
    hres = run_history(prop, case)
    res = HResult()
    res.violations = hres.violations
    res.stats = hres.stats
    res.log = hres.log
    res.run = hres
    res.extra_runs = 0
    res.vtime = 0.0
    res.shape = hash(tuple(show_history(case))) ^ hash(tuple(hres.log))
    if prop in ('C01', 'C02', 'C03', 'C12'):
        res.nontrivial = bool(hres.stats.get('runs_of_built_graph'))
    elif prop == 'C19':
        res.nontrivial = hres.stats.get('construction_steps', 0) >= 8
    elif prop == 'C18':
        res.nontrivial = hres.stats.get('surgery_steps', 0) >= 2
    else:
        res.nontrivial = any(hres.stats.get(k) for k in NONTRIVIAL[prop])
    res.stats = dict(hres.stats)
    res.stats['api_calls'] = sum(1 for e in hres.log if e[2] != 'skipped')
    return res


def digest(res):
    text = repr(res.log) + repr([v.as_dict() for v in res.violations]) + \
        repr(getattr(res.run, 'events', None))
    return hashlib.sha256(text.encode()).hexdigest()


def events(res):
    return [list(e) for e in res.log]


def sample(seed, idx, case, res):
    return {"seed": seed, "history": show_history(case)[:40],
            "outcomes": [list(e) for e in res.log[:40]],
            "violations": [v.as_dict() for v in res.violations][:3]}


def candidates(case):
    ops = case['ops']
    n = len(ops)
    # drop suffixes, then chunks, then single steps
    for cut in (n // 2, n - 1):
        if 0 < cut < n:
            new = copy.deepcopy(case)
            new['ops'] = new['ops'][:cut]
            yield new
    size = max(1, n // 4)
    while size >= 1:
        for i in range(0, n, size):
            new = copy.deepcopy(case)
            del new['ops'][i:i + size]
            if new['ops']:
                yield new
        if size == 1:
            break
        size //= 2
    # simplify arguments: unwrap containers, drop items
    for i, op in enumerate(ops):
        for key in ('required', 'arg'):
            arg = op.get(key)
            if isinstance(arg, dict) and arg['t'] in ('list', 'tuple', 'set',
                                                       'iter'):
                for item in arg['items']:
                    new = copy.deepcopy(case)
                    new['ops'][i][key] = item
                    yield new
        if 'items' in op and len(op['items']) > 1:
            for k in range(len(op['items'])):
                new = copy.deepcopy(case)
                del new['ops'][i]['items'][k]
                yield new
        for key in ('remains', 'starts', 'ends'):
            if len(op.get(key, [])) > 1:
                for k in range(len(op[key])):
                    new = copy.deepcopy(case)
                    del new['ops'][i][key][k]
                    yield new
        if op.get('forever'):
            new = copy.deepcopy(case)
            new['ops'][i]['forever'] = False
            yield new
    if case.get('salt'):
        new = copy.deepcopy(case)
        new['salt'] = 0
        yield new


def valid(prop, case):
    return bool(case['ops'])


def pin(case, res):
    return None


def case_size(case):
    import json
    return len(json.dumps(case['ops']))
