"""
Seeded generator of API-call histories (engine B). The generator keeps its own
Model so that operands are meaningful (existing names, members, present or
absent requirements); ops refer to objects by name, so a history stays
interpretable when steps are deleted (a step whose operand is missing is
skipped).
"""

import random

from .hmodel import Model, ModelError

HPROFILES = {
    # weights of op kinds after the initial construction phase
    'C15': {'requires': 5, 'requires_remove': 2, 'cycles': 6, 'job': 2,
            'chain': 0.12, 'remove': 2, 'sched': 2, 'add': 1, 'sanitize': 1, 'back_edge': 4,
            'prerun': 0.4},
    'C16': {'requires': 4, 'dangling': 5, 'sanitize': 5, 'job': 2, 'sched': 2,
            'add': 1, 'remove': 1, 'seq': 1, 'prerun': 0.6},
    'C17': {'requires': 4, 'requires_remove': 2, 'query': 8, 'job': 2,
            'sched': 2, 'add': 1, 'remove': 2, 'bypass': 1, 'seq': 1,
            'keep_only': 1, 'dangling': 2, 'chain': 0.12, 'prerun': 0.4},
    'C18': {'requires': 3, 'requires_remove': 2, 'bypass': 5, 'keep_only': 3,
            'keep_between': 4, 'job': 2, 'seq': 1, 'query': 2, 'sched': 1,
            'chain': 0.1, 'prerun': 0.4},
    # histories that end with run(): queries, edits and surgery first
    'C01': {'requires': 4, 'requires_remove': 1, 'query': 4, 'job': 3,
            'sched': 1, 'add': 2, 'update': 1, 'remove': 3, 'bypass': 3,
            'keep_only': 1, 'keep_between': 1, 'sanitize': 3, 'seq': 2,
            'append': 1, 'cycles': 2},
    'C03': {'requires': 5, 'requires_remove': 1, 'query': 5, 'job': 3,
            'sched': 1, 'add': 2, 'update': 1, 'remove': 2, 'bypass': 2,
            'keep_only': 1, 'sanitize': 2, 'seq': 2, 'append': 1,
            'cycles': 2},
    'C12': {'requires': 5, 'requires_remove': 1, 'query': 5, 'job': 3,
            'sched': 1, 'add': 2, 'update': 1, 'remove': 2, 'bypass': 2,
            'keep_only': 1, 'keep_between': 1, 'sanitize': 2, 'seq': 2,
            'append': 1, 'cycles': 2},
    'C02': {'requires': 4, 'requires_remove': 1, 'query': 4, 'job': 3,
            'sched': 1, 'add': 2, 'update': 1, 'remove': 3, 'bypass': 3,
            'keep_only': 1, 'keep_between': 1, 'sanitize': 3, 'seq': 2,
            'append': 1, 'cycles': 2},
    'C19': {'requires': 4, 'requires_remove': 3, 'seq': 5, 'append': 5,
            'seq_requires': 2, 'job': 3, 'sched': 2, 'add': 2, 'update': 2,
            'remove': 1, 'dangling': 1},
}


class HGen:

    def __init__(self, rng, prop):
        self.rng = rng
        self.prop = prop
        self.m = Model()
        self.ops = []
        self.n = {'a': 0, 'S': 0, 'Q': 0}
        self.owner = {}           # job/sched name -> scheduler it belongs to
        self.top = None

    # ---- helpers
    def fresh(self, prefix):
        self.n[prefix] += 1
        return "%s%d" % (prefix, self.n[prefix])

    def jobs(self):
        return [n for n, k in self.m.kind.items() if k in ('job', 'sched')]

    def scheds(self):
        return [n for n, k in self.m.kind.items() if k in ('sched', 'pure')]

    def seqs(self):
        return [n for n, k in self.m.kind.items() if k == 'seq']

    def ref(self, name):
        return {"t": "ref", "name": name}

    def none(self):
        return {"t": "none"}

    def emit(self, op):
        self.ops.append(op)

    def depth_of(self, sched):
        d = 1
        while sched in self.owner:
            sched = self.owner[sched]
            d += 1
        return d

    def free_jobs(self):
        """jobs and schedulers that belong to no scheduler yet"""
        return [j for j in self.jobs() if j not in self.owner]

    def arg_of(self, names, allow_seq=True):
        """wrap a list of names (and possibly sequences / None) into an
        arbitrarily nested structure of lists, tuples and sets"""
        rng = self.rng
        items = [self.ref(n) for n in names]
        if rng.random() < 0.3:
            items.insert(rng.randrange(len(items) + 1), self.none())
        if not items:
            return rng.choice((self.none(), {"t": "list", "items": []},
                               {"t": "tuple", "items": [self.none()]}))
        if len(items) == 1 and rng.random() < 0.5:
            return items[0]

        def nest(items, depth):
            if depth >= 3 or len(items) <= 1 or rng.random() < 0.5:
                kind = rng.choice(("list", "tuple", "set", "list"))
                if kind == "set":
                    if any(i["t"] not in ("ref", "none") for i in items) or \
                            any(i["t"] == "ref"
                                and self.m.kind[i["name"]] == 'seq'
                                for i in items):
                        kind = "list"
                if depth == 0 and rng.random() < 0.08:
                    kind = "iter"       # a generator: can be walked only once
                return {"t": kind, "items": items}
            cut = rng.randrange(1, len(items))
            return {"t": rng.choice(("list", "tuple")),
                    "items": [nest(items[:cut], depth + 1),
                              nest(items[cut:], depth + 1)]}
        return nest(items, 0)

    # ---- ops
    def op_job(self, scheduler=None, required=()):
        name = self.fresh('a')
        forever = self.rng.random() < 0.2
        req = self.arg_of(list(required)) if required or \
            self.rng.random() < 0.2 else None
        op = {"op": "job", "name": name, "forever": forever,
              "required": req, "scheduler": scheduler}
        if self.rng.random() < 0.1:
            op["falsy"] = True                  # bool(job) is False
        prev = getattr(self, '_last_set_required', None)
        if prev is not None and self.rng.random() < 0.3 and not required:
            # a second job built from the very same set object
            op["required"], op["share_required"] = prev, True
            req = prev
        if req is not None and req['t'] == 'set':
            self._last_set_required = req
            op["share_required"] = True
        self.emit(op)
        self.m.new_job(name, forever, req, scheduler)
        if scheduler:
            self.owner[name] = scheduler
        return name

    def op_sched(self, pure=False, scheduler=None, items=()):
        name = self.fresh('S')
        rng = self.rng
        forever = (not pure) and rng.random() < 0.1
        items = list(items)
        if not items and rng.random() < 0.3:
            # constructor given free jobs / a sequence of free jobs directly
            free = [j for j in self.free_jobs() if self.m.kind[j] == 'job']
            items = rng.sample(free, min(len(free), rng.choice((1, 2))))
        its = [self.ref(i) for i in items]
        if its and rng.random() < 0.2:
            its.append(its[0])                  # the same job mentioned twice
        if its and rng.random() < 0.3:
            its.insert(rng.randrange(len(its) + 1), self.none())
        required = None
        if scheduler is not None and rng.random() < 0.3:
            mem = sorted(self.m.members[scheduler], key=self.order_key)
            if mem:
                required = self.arg_of([rng.choice(mem)])
        self.emit({"op": "sched", "name": name, "pure": pure, "items": its,
                   "forever": forever, "required": required,
                   "scheduler": scheduler,
                   "odd_len": rng.random() < 0.15})
        self.m.new_sched(name, pure, its, forever, required, scheduler)
        for i in self.m.members[name]:
            self.owner[i] = name
        if scheduler:
            self.owner[name] = scheduler
        return name

    def pick_sched(self):
        return self.rng.choice(self.scheds())

    def same_sched_pair(self, forward=True):
        """(later, earlier) members of one scheduler; forward: only pairs that
        keep the graph acyclic (earlier created before later)"""
        rng = self.rng
        for _ in range(8):
            s = self.pick_sched()
            mem = sorted(self.m.members[s], key=self.order_key)
            if len(mem) >= 2:
                i, j = sorted(rng.sample(range(len(mem)), 2))
                return (s, mem[j], mem[i]) if forward else (s, mem[i], mem[j])
        return None

    def order_key(self, name):
        return (int(name[1:]), name[0])

    def op_requires(self):
        pair = self.same_sched_pair()
        if not pair:
            return
        s, later, earlier = pair
        names = [earlier]
        mem = sorted(self.m.members[s], key=self.order_key)
        more = [x for x in mem if self.order_key(x) < self.order_key(later)
                and x != earlier]
        if more and self.rng.random() < 0.4:
            names.append(self.rng.choice(more))
        arg = self.arg_of(names)
        if self.rng.random() < 0.15:
            # name a requirement through a sequence (stands for its last job)
            # (also a sequence that ends with the job itself: the documented
            # self-requirement guard must hold on that path too)
            seqs = [q for q in self.seqs() if self.m.seq[q]]
            if seqs:
                arg = {"t": self.rng.choice(("list", "tuple")),
                       "items": [arg, self.ref(self.rng.choice(seqs))]}
        if self.rng.random() < 0.1:
            arg = {"t": "list", "items": [arg, self.ref(later)]}   # self
        op = {"op": "requires", "job": later, "arg": arg, "remove": False}
        if more and self.rng.random() < 0.3:
            # several positional arguments, possibly None among them
            first = self.rng.choice((self.none(), arg))
            op["arg"] = first
            op["more_args"] = [self.ref(self.rng.choice(more))] + (
                [arg] if first is not arg else [])
        self.emit(op)
        self.m.requires(later, op["arg"])
        for extra in op.get("more_args", ()):
            self.m.requires(later, extra)

    def op_back_edge(self):
        pair = self.same_sched_pair(forward=False)
        if not pair:
            return
        _, earlier, later = pair
        arg = self.ref(later)
        self.emit({"op": "requires", "job": earlier, "arg": arg,
                   "remove": False})
        self.m.requires(earlier, arg)

    def op_dangling(self):
        jobs = self.jobs()
        if len(jobs) < 2:
            return
        a, b = self.rng.sample(jobs, 2)
        if self.owner.get(a) == self.owner.get(b) and self.rng.random() < 0.7:
            return
        arg = self.arg_of([b])
        self.emit({"op": "requires", "job": a, "arg": arg, "remove": False})
        self.m.requires(a, arg)

    def op_requires_remove(self):
        cands = [j for j in self.jobs() if self.m.req[j]]
        if not cands:
            return
        job = self.rng.choice(cands)
        present = sorted(self.m.req[job])
        names = self.rng.sample(present, self.rng.choice((1, 1, 2))
                                if len(present) > 1 else 1)
        arg = self.arg_of(names, allow_seq=False)
        # sometimes name the requirement through a sequence that ends with it
        for q in self.seqs():
            if self.m.seq[q] and self.m.seq[q][-1] in names \
                    and self.rng.random() < 0.6:
                names2 = [n for n in names if n != self.m.seq[q][-1]]
                arg = {"t": "list", "items": [self.ref(q)]
                       + [self.ref(n) for n in names2]}
                break
        if self.rng.random() < 0.15:
            absent = [j for j in self.jobs()
                      if j not in self.m.req[job] and j != job]
            if absent:
                arg = {"t": "list",
                       "items": [arg, self.ref(self.rng.choice(absent))]}
        self.emit({"op": "requires", "job": job, "arg": arg, "remove": True})
        try:
            self.m.requires(job, arg, remove=True)
        except ModelError:
            pass

    def op_seq(self):
        rng = self.rng
        sched = self.pick_sched() if rng.random() < 0.7 else None
        items = []
        for _ in range(rng.choice((0, 1, 2, 2, 3, 4))):
            r = rng.random()
            free = [j for j in self.free_jobs()
                    if all(j != i.get("name") for i in items)
                    and self.m.kind[j] == 'job']
            if r < 0.15:
                items.append(self.none())
            elif r < 0.3 and self.seqs():
                q = rng.choice(self.seqs())
                # a nested sequence brings its jobs: they must be free too
                if all(self.owner.get(j) in (None, sched)
                       for j in self.m.seq[q]) and \
                        all(q != i.get("name") for i in items):
                    items.append(self.ref(q))
            elif free and r < 0.6:
                items.append(self.ref(rng.choice(free)))
            else:
                items.append(self.ref(self.op_job()))
        flat = self.m.flatten_jobs(items)
        if len(set(flat)) != len(flat):
            return
        if sched and any(self.owner.get(j) not in (None, sched) for j in flat):
            sched = None
        required = None
        if rng.random() < 0.4:
            pool = [j for j in self.jobs() if j not in flat
                    and (sched is None or self.owner.get(j) == sched)]
            if pool:
                required = self.arg_of([rng.choice(pool)])
        name = self.fresh('Q')
        self.emit({"op": "seq", "name": name, "items": items,
                   "required": required, "scheduler": sched})
        self.m.new_seq(name, items, required, sched)
        if sched:
            for j in flat:
                self.owner[j] = sched
        return name

    def op_append(self):
        if not self.seqs():
            return
        rng = self.rng
        q = rng.choice(self.seqs())
        sched = self.m.seq_sched[q]
        items = []
        for _ in range(rng.choice((1, 1, 2, 2, 3))):
            r = rng.random()
            if r < 0.15:
                items.append(self.none())
            elif r < 0.3:
                others = [x for x in self.seqs() if x != q
                          and not set(self.m.seq[x]) & set(self.m.seq[q])
                          and all(x != i.get("name") for i in items)
                          and all(self.owner.get(j) in (None, sched)
                                  for j in self.m.seq[x])]
                if others:
                    items.append(self.ref(rng.choice(others)))
            else:
                items.append(self.ref(self.op_job()))
        flat = self.m.flatten_jobs(items)
        if len(set(flat)) != len(flat) or set(flat) & set(self.m.seq[q]):
            return
        self.emit({"op": "append", "seq": q, "items": items})
        self.m.append(q, items)
        if sched:
            for j in flat:
                self.owner[j] = sched

    def op_seq_requires(self):
        cands = self.seqs()
        if not cands:
            return
        q = self.rng.choice(cands)
        if not self.m.seq[q]:
            # still empty: documented as a no-op
            arg = self.rng.choice((self.none(), self.arg_of(
                [self.rng.choice(self.jobs())]) if self.jobs()
                else self.none()))
            self.emit({"op": "seq_requires", "seq": q, "arg": arg})
            return
        first = self.m.seq[q][0]
        pool = [j for j in self.jobs() if j not in self.m.seq[q]
                and self.order_key(j) < self.order_key(first)]
        if not pool:
            return
        arg = self.arg_of([self.rng.choice(pool)])
        self.emit({"op": "seq_requires", "seq": q, "arg": arg})
        self.m.seq_requires(q, arg)

    def op_add(self, update=False):
        free = self.free_jobs()
        rng = self.rng
        sched = self.pick_sched()
        names = []
        if free and rng.random() < 0.6:
            cand = rng.choice(free)
            # no containment cycle, bounded depth
            if self.m.kind[cand] != 'sched' or (
                    cand != sched and not self.contains(cand, sched)
                    and self.depth_of(sched) < 3):
                names.append(cand)
        if not names:
            names.append(self.op_job())
        if update and rng.random() < 0.5:
            names.append(self.op_job())
        if update and rng.random() < 0.2:
            names.append(names[0])              # mentioned twice: once is enough
        items = [self.ref(n) for n in names]
        if update:
            if rng.random() < 0.3:
                items.append(self.none())
            self.emit({"op": "update", "sched": sched, "items": items,
                       "as_iter": rng.random() < 0.25})
        else:
            items = items[:1]
            names = names[:1]
            self.emit({"op": "add", "sched": sched, "item": items[0]})
        self.m.add(sched, items)
        for n in names:
            self.owner[n] = sched

    def contains(self, outer, inner):
        """is scheduler `inner` inside scheduler `outer` (or equal)"""
        while inner is not None:
            if inner == outer:
                return True
            inner = self.owner.get(inner)
        return False

    def op_remove(self):
        sched = self.pick_sched()
        mem = sorted(self.m.members[sched])
        if not mem:
            return
        job = self.rng.choice(mem)
        if self.rng.random() < 0.1:
            others = [j for j in self.jobs() if j not in mem]
            if others:
                job = self.rng.choice(others)
        self.emit({"op": "remove", "sched": sched, "job": job})
        try:
            self.m.remove(sched, job)
            self.owner.pop(job, None)
        except ModelError:
            pass

    def op_sanitize(self):
        sched = self.pick_sched()
        self.emit({"op": "sanitize", "sched": sched,
                   "twice": self.rng.random() < 0.7,
                   "verbose": self.rng.random() < 0.25})
        self.m.sanitize(sched)

    def op_chain(self):
        """a long requirement chain (a Sequence of many jobs) in a scheduler"""
        sched = self.pick_sched()
        n = self.rng.choice((25, 40, 55))
        names = [self.fresh('a') for _ in range(n)]
        self.emit({"op": "chain", "sched": sched, "names": names})
        prev = None
        for name in names:
            self.m.new_job(name, False, None, sched)
            if prev is not None:
                self.m.req[name].add(prev)
            self.owner[name] = sched
            prev = name

    def op_query(self):
        sched = self.pick_sched()
        mem = sorted(self.m.members[sched])
        starts = []
        if mem:
            k = self.rng.choice((1, 1, 2, 2, 3))
            starts = self.rng.sample(mem, min(k, len(mem)))
        self.emit({"op": "query", "sched": sched, "starts": starts})

    def op_prerun(self):
        self.emit({"op": "prerun", "sched": self.top})

    def op_cycles(self):
        self.emit({"op": "cycles", "sched": self.pick_sched(),
                   "query_inside": self.rng.random() < 0.3})

    def op_bypass(self):
        sched = self.pick_sched()
        mem = sorted(self.m.members[sched])
        if not mem:
            return
        job = self.rng.choice(mem)
        if self.rng.random() < 0.05:
            others = [j for j in self.jobs() if j not in mem]
            if others:
                job = self.rng.choice(others)
        self.emit({"op": "bypass", "sched": sched, "job": job})
        try:
            self.m.bypass(sched, job)
            self.owner.pop(job, None)
        except ModelError:
            pass

    def op_keep_only(self):
        sched = self.pick_sched()
        mem = sorted(self.m.members[sched])
        if len(mem) < 2:
            return
        k = self.rng.randrange(1, len(mem) + 1)
        remains = self.rng.sample(mem, k)
        if self.rng.random() < 0.2:
            others = [j for j in self.jobs() if j not in mem]
            if others:
                remains.append(self.rng.choice(others))
        self.emit({"op": "keep_only", "sched": sched, "remains": remains,
                   "as_iter": self.rng.random() < 0.3})
        self.m.keep_only(sched, remains)
        for j in mem:
            if j not in self.m.members[sched]:
                self.owner.pop(j, None)

    def op_keep_between(self):
        sched = self.pick_sched()
        mem = sorted(self.m.members[sched])
        if len(mem) < 2:
            return
        rng = self.rng
        starts = rng.sample(mem, rng.choice((0, 1, 1, 2, 3)) % (len(mem) + 1))
        ends = rng.sample(mem, rng.choice((0, 1, 1, 2, 3)) % (len(mem) + 1))
        op = {"op": "keep_between", "sched": sched, "starts": starts,
              "ends": ends, "keep_starts": rng.random() < 0.6,
              "keep_ends": rng.random() < 0.6,
              "as_iter": rng.random() < 0.3}
        self.emit(op)
        self.m.keep_only_between(sched, starts, ends, op["keep_starts"],
                                 op["keep_ends"])
        for j in mem:
            if j not in self.m.members[sched]:
                self.owner.pop(j, None)

    # ---- whole history
    def generate(self):
        rng = self.rng
        prof = HPROFILES[self.prop]
        # initial construction: a top scheduler with a few jobs and a DAG
        top = self.op_sched(pure=rng.random() < 0.3)
        self.top = top
        for _ in range(rng.choice((2, 3, 4, 5, 6, 8))):
            if rng.random() < 0.2 and len(self.scheds()) < 4:
                parent = self.pick_sched()
                if self.depth_of(parent) < 3:
                    self.op_sched(scheduler=parent)
                    continue
            sched = self.pick_sched()
            mem = sorted(self.m.members[sched], key=self.order_key)
            req = [m for m in mem if rng.random() < 0.3][:3]
            self.op_job(scheduler=sched, required=req)
        kinds = list(prof)
        weights = [prof[k] for k in kinds]
        table = {
            'requires': self.op_requires, 'back_edge': self.op_back_edge,
            'dangling': self.op_dangling,
            'requires_remove': self.op_requires_remove,
            'cycles': self.op_cycles, 'job': self._job_in_sched,
            'sched': self._nested_sched, 'add': self.op_add,
            'update': lambda: self.op_add(update=True),
            'remove': self.op_remove, 'sanitize': self.op_sanitize,
            'seq': self.op_seq, 'append': self.op_append,
            'seq_requires': self.op_seq_requires, 'query': self.op_query,
            'bypass': self.op_bypass, 'keep_only': self.op_keep_only,
            'chain': self.op_chain,
            'keep_between': self.op_keep_between,
            'prerun': self.op_prerun,
        }
        for _ in range(rng.choice((4, 6, 8, 10, 14, 20))):
            table[rng.choices(kinds, weights)[0]]()
        if (self.prop == 'C19' and rng.random() < 0.5) or \
                self.prop in ('C01', 'C02', 'C03', 'C12'):
            if self.prop != 'C19' and rng.random() < 0.7:
                # make the tree runnable: drop dangling requirements
                self.emit({"op": "sanitize", "sched": top, "twice": False})
                self.m.sanitize(top)
            self.emit({"op": "run", "sched": top})
        return self.ops

    def _job_in_sched(self):
        sched = self.pick_sched() if self.rng.random() < 0.8 else None
        self.op_job(scheduler=sched)

    def _nested_sched(self):
        parent = self.pick_sched()
        if self.depth_of(parent) < 3 and len(self.scheds()) < 5:
            self.op_sched(scheduler=parent)


def gen_history(seed, prop):
    rng = random.Random(seed)
    gen = HGen(rng, prop)
    ops = gen.generate()
    return {"ops": ops, "salt": rng.randrange(1 << 30)}
