"""
Process-wide seam for the wall clock: time.time / time.monotonic are replaced in
the `time` module itself. While a simulation is active *in this thread* they
return the SimLoop's clock (+ a constant offset for time.time); otherwise the
real value. Installed before asynciojobs is imported, although the library looks
`time.time` up at call time anyway.
"""

import time
import threading

_real_time = time.time
_real_monotonic = time.monotonic

_state = {"loop": None, "offset": 0.0, "thread": None, "jump": None}


def _sim_time():
    loop = _state["loop"]
    if loop is not None and threading.get_ident() == _state["thread"]:
        now = loop._now
        jump = _state["jump"]
        if jump is not None and now >= jump[0]:
            # the wall clock was stepped (ntp, suspend / resume) at that
            # instant of the run; time.monotonic() and the loop's clock go on
            return now + _state["offset"] + jump[1]
        return now + _state["offset"]
    return _real_time()


def _sim_monotonic():
    loop = _state["loop"]
    if loop is not None and threading.get_ident() == _state["thread"]:
        return loop._now
    return _real_monotonic()


def install():
    if time.time is not _sim_time:
        time.time = _sim_time
        time.monotonic = _sim_monotonic


def activate(loop, wall_offset, jump=None):
    """jump: None or (loop time, seconds): time.time() is stepped by that
    many seconds from that instant on"""
    _state["loop"] = loop
    _state["offset"] = float(wall_offset)
    _state["thread"] = threading.get_ident()
    _state["jump"] = jump


def deactivate():
    _state["loop"] = None


def real_time():
    return _real_time()


def real_monotonic():
    return _real_monotonic()
