"""
Verification-side workload: jobs and schedulers that execute a small script and
log what happens to them. They are ordinary subclasses of the public classes
(AbstractJob, Job, Scheduler, PureScheduler); nothing in the library is patched.

Only these classes write to the event log.
"""

import asyncio
import sys

from .lib import AbstractJob, Job, PureScheduler, Scheduler


class SimError(Exception):
    """the unique exception instance raised by one job body"""

    def __init__(self, nid, noargs=False):
        if noargs:
            super().__init__()          # like a bare `raise ValueError`
        else:
            super().__init__("boom in " + nid)
        self.nid = nid


class SimAbort(BaseException):
    """an exception that does not derive from Exception"""

    def __init__(self, nid):
        super().__init__("abort in " + nid)
        self.nid = nid


class Sentinel:
    """the unique object returned by one job body"""
    __slots__ = ('nid',)

    def __init__(self, nid):
        self.nid = nid

    def __repr__(self):
        return "<ret {}>".format(self.nid)


class AwaitableSentinel(Sentinel):
    """a job may well return something that can be awaited (a future, the
    task of a service it started): the value of the job is that object, and
    nobody but the user is to await it"""
    __slots__ = ('ctx',)

    def __init__(self, nid, ctx):
        Sentinel.__init__(self, nid)
        self.ctx = ctx

    def __await__(self):
        self.ctx.log('mark', self.nid, 'result-awaited')
        return Sentinel(self.nid + ':inner')
        yield                                   # pylint: disable=W0101


class Ctx:
    """per-run context: loop, event log, node registry, hash salt"""

    def __init__(self, loop, salt):
        self.loop = loop
        self.salt = salt
        self.events = []          # (seq, vtime, kind, nid, payload)
        self.seq = 0
        self.nodes = {}           # nid -> object
        self.order = []           # creation order of nids
        self.n_created = 0
        self.n_tasks = 0
        self.tasks = []           # every task created through the factory
        self.polls = []           # (seq, vtime, {nid: tuple})
        self.loop_errors = []     # messages given to the loop exception handler
        self.objs = {}            # nid -> {'ret': obj, 'exc': obj}
        self.parent_of = {}       # nid -> nid of the enclosing scheduler
        self.top = None

    def log(self, kind, nid, payload=None):
        self.seq += 1
        self.events.append((self.seq, self.loop._now, kind, nid, payload))

    def new_hash(self):
        self.n_created += 1
        return hash((self.salt, self.n_created))

    def register(self, node):
        self.nodes[node.nid] = node
        self.order.append(node.nid)


class SimTask(asyncio.Task):
    """asyncio.Task with a seeded hash, so that iteration over the sets
    returned by asyncio.wait is a function of the seed"""

    def __hash__(self):
        return self._sim_hash

    def __eq__(self, other):
        return self is other

    def cancel(self, msg=None):
        # seam: a cancellation request for the task that wraps a job
        job = getattr(self, '_job', None)
        if sys._getframe(1).f_code.co_name == '_on_timeout':
            # asyncio.timeout() inside the job's own body (a "guard" step),
            # not a request from a scheduler
            job = None
        if job is not None and not self.done():
            nid = getattr(job, 'nid', None)
            if nid is not None:
                self._sim_ctx.log('cancel_req', nid)
        return super().cancel(msg)


def make_task_factory(ctx):
    def factory(loop, coro, **kwds):
        # the hash is needed by Task.__init__ itself (task registry)
        task = SimTask.__new__(SimTask)
        ctx.n_tasks += 1
        task._sim_hash = hash((ctx.salt, -ctx.n_tasks))
        task._sim_ctx = ctx
        task.__init__(coro, loop=loop, **kwds)
        ctx.tasks.append(task)
        return task
    return factory


async def _spend(steps, ctx=None, nid=None):
    for op, arg in steps:
        if op == 'sleep':
            await asyncio.sleep(arg)
        elif op == 'yield':
            for _ in range(arg):
                await asyncio.sleep(0)
        elif op == 'inspect':
            _inspect(ctx, nid, arg)
        elif op == 'guard':
            await _guarded(arg[0], arg[1])
        else:                                           # pragma: no cover
            raise ValueError(op)


async def _guarded(bound, cleanup):
    """the body bounds an operation of its own with asyncio.timeout(): at
    expiry asyncio requests the cancellation of the job's *own task*, the
    operation spends `cleanup` tidying up, the timeout is converted into
    TimeoutError and the body goes on. Between the request and the end of the
    tidying the task has a cancellation pending (Task.cancelling() > 0) while
    the job is neither cancelled by anybody else nor over. A cancellation from
    the scheduler that lands in this step is passed on as usual."""
    task = asyncio.current_task()
    try:
        async with asyncio.timeout(bound) as scope:
            try:
                await asyncio.get_running_loop().create_future()
            finally:
                if scope.expired() and task.cancelling() == 1:
                    await asyncio.sleep(cleanup)
    except TimeoutError:
        pass


def _inspect(ctx, nid, arg):
    """read-only introspection of a scheduler while it runs, from inside a
    job (a monitoring job): "parent:list", "top:cycles", ..."""
    who, what = arg.split(':')
    target = ctx.top if who == 'top' else ctx.nodes.get(
        ctx.parent_of.get(nid))
    if target is None:
        return
    ctx.log('inspect', nid, arg)
    try:
        _do_inspect(target, what)
    except Exception as exc:                            # pylint: disable=W0703
        # the inspection itself is not what is judged here
        ctx.log('inspect_error', nid, type(exc).__name__)


def _do_inspect(target, what):
    if what == 'list':
        target.list()
    elif what == 'cycles':
        target.check_cycles()
    elif what == 'topo':
        for _ in target.topological_order():
            pass
    elif what == 'stats':
        target.stats()
        repr(target)
    elif what == 'exits':
        list(target.exit_jobs())
        list(target.entry_jobs())
    elif what == 'debrief':
        target.debrief()
    elif what == 'list_safe':
        target.list_safe()
        target.list(details=True)
    elif what == 'dot':
        target.dot_format()     # may legitimately raise on some shapes
    elif what == 'iterate':
        list(target.iterate_jobs())
        list(target.iterate_jobs(scan_schedulers=True))
        len(target)
        list(iter(target))


class _NodeMixin:

    def _sim_init(self, ctx, spec):
        self.ctx = ctx
        self.spec = spec
        self.nid = spec['id']
        self._sim_hash = ctx.new_hash()
        ctx.register(self)

    def __hash__(self):
        return self._sim_hash

    def __eq__(self, other):
        return self is other


class _JobMixin(_NodeMixin):

    def __bool__(self):
        # a job object may be falsy (a user class with __len__ / __bool__):
        # it is a job all the same
        return not self.spec.get('falsy')

    def is_critical(self):
        # a user-defined job class may compute its criticality itself and
        # leave the constructor's flag alone: is_critical() is the accessor
        if self.spec.get('crit_method'):
            return self.spec['critical']
        return super().is_critical()

    async def _body(self):
        ctx, nid, spec = self.ctx, self.nid, self.spec
        ctx.log('enter', nid)
        try:
            await _spend(spec['script'], ctx, nid)
            outcome = spec['outcome']
            if outcome == 'never_fut':
                await ctx.loop.create_future()
            elif outcome == 'never_tick':
                while True:
                    await asyncio.sleep(1.0)
        except asyncio.CancelledError:
            ctx.log('cancel_seen', nid)
            try:
                await _spend(spec.get('cleanup') or ())
            except asyncio.CancelledError:
                ctx.log('cancel_again', nid)
            if spec.get('cleanup_outcome') == 'ret':
                # the job catches its cancellation and returns normally
                ret = Sentinel(nid)
                ctx.objs.setdefault(nid, {})['ret'] = ret
                ctx.log('exit', nid, 'cret')
                return ret
            if spec.get('cleanup_outcome') == 'exc':
                # the job does end, but by raising from its cancellation
                # handler (a failing 'finally' clause)
                exc = SimError(nid)
                ctx.objs.setdefault(nid, {})['exc'] = exc
                ctx.log('exit', nid, 'cexc')
                raise exc
            ctx.log('exit', nid, 'cancelled')
            raise
        if outcome == 'self_cancel':
            # ends with CancelledError on its own (e.g. it awaited a helper
            # future that somebody else cancelled): its task ends cancelled
            # although nobody cancelled the task
            ctx.log('exit', nid, 'scancel')
            raise asyncio.CancelledError()
        if outcome == 'exc':
            if spec.get('exc_type') == 'timeout':
                exc = TimeoutError("job gave up in " + nid)     # a builtin
                exc.nid = nid
            else:
                exc = SimAbort(nid) if spec.get('exc_base') else \
                    SimError(nid, noargs=bool(spec.get('exc_noargs')))
            ctx.objs.setdefault(nid, {})['exc'] = exc
            ctx.log('exit', nid, 'exc')
            raise exc
        ret = AwaitableSentinel(nid, ctx) if spec.get('ret_awaitable') \
            else Sentinel(nid)
        ctx.objs.setdefault(nid, {})['ret'] = ret
        ctx.log('exit', nid, 'ret')
        return ret

    async def _handler(self):
        ctx, nid, spec = self.ctx, self.nid, self.spec
        ctx.log('sd_enter', nid)
        try:
            handler = spec.get('handler') or ()
            if handler == 'never':
                await ctx.loop.create_future()
            else:
                await _spend(handler)
        except asyncio.CancelledError:
            ctx.log('sd_cancel', nid)
            if spec.get('handler_absorbs'):
                return              # absorbs its cancellation, ends normally
            raise
        ctx.log('sd_exit', nid)
        if spec.get('handler_self_cancel'):
            raise asyncio.CancelledError()


class SimJob(_JobMixin, AbstractJob):
    """script-driven job, as a direct subclass of AbstractJob"""

    def __init__(self, ctx, spec, **kwds):
        self._sim_init(ctx, spec)
        AbstractJob.__init__(self, label=spec.get('label', self.nid), **kwds)

    async def co_run(self):
        return await self._body()

    async def co_shutdown(self):
        return await self._handler()


class SimCoroJob(_JobMixin, Job):
    """same script, handed to the library's own Job class as coroutine
    objects (corun=, coshutdown=); Job.co_run / Job.co_shutdown are the
    library's"""

    def __init__(self, ctx, spec, **kwds):
        self._sim_init(ctx, spec)
        Job.__init__(self, self._body(), coshutdown=self._handler(),
                     label=spec.get('label', self.nid), **kwds)


class _SchedMixin(_NodeMixin):

    def __len__(self):
        # a scheduler class of the application may count differently, e.g.
        # the jobs of the whole tree
        if self.spec.get('odd_len'):
            return sum(len(job) if isinstance(job, _SchedMixin) else 1
                       for job in self.jobs)
        return len(self.jobs)

    async def _logged_run(self, inner):
        ctx, nid = self.ctx, self.nid
        if self.spec.get('crit_late'):
            # the documented attribute assigned once the run has begun (by
            # the loop's next iteration, before any job body has run)
            ctx.loop.call_soon(setattr, self, 'critical',
                               self.spec['critical'])
        ctx.log('run_begin', nid)
        try:
            value = await inner
        except asyncio.CancelledError:
            ctx.log('over', nid, 'cancelled')
            raise
        except BaseException as exc:
            ctx.objs.setdefault(nid, {})['exc'] = exc
            ctx.log('over', nid, 'exc')
            raise
        ctx.objs.setdefault(nid, {})['ret'] = value
        ctx.log('over', nid, 'ret:' + repr(value))
        return value

    async def _logged_shutdown(self, inner):
        ctx, nid = self.ctx, self.nid
        ctx.log('sdrun_begin', nid)
        try:
            value = await inner
        except asyncio.CancelledError:
            ctx.log('sdrun_end', nid, 'cancelled')
            raise
        except BaseException as exc:
            ctx.log('sdrun_end', nid, 'exc:' + type(exc).__name__)
            raise
        ctx.log('sdrun_end', nid, 'ret:' + repr(value))
        return value


class SimScheduler(_SchedMixin, Scheduler):

    def __init__(self, *members, ctx, spec, **kwds):
        self._sim_init(ctx, spec)
        Scheduler.__init__(self, *members, label=spec.get('label', self.nid),
                           **kwds)

    def is_critical(self):
        if self.spec.get('crit_method'):
            return self.spec['critical']
        return Scheduler.is_critical(self)

    async def co_run(self):
        return await self._logged_run(Scheduler.co_run(self))

    async def co_shutdown(self):
        return await self._logged_shutdown(Scheduler.co_shutdown(self))


class SimPureScheduler(_SchedMixin, PureScheduler):

    def __init__(self, *members, ctx, spec, **kwds):
        self._sim_init(ctx, spec)
        PureScheduler.__init__(self, *members, **kwds)

    async def co_run(self):
        return await self._logged_run(PureScheduler.co_run(self))

    async def co_shutdown(self):
        return await self._logged_shutdown(PureScheduler.co_shutdown(self))
