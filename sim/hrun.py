"""
Execute one API-call history against the library and against the reference model,
operation by operation, and judge it (engine B: C15-C19).

Before every operation the model is re-synchronised with the library's state, so
that each operation is judged on its own: the model predicts the state after the
call from the state before it. (Model-only knowledge - the required= of a
sequence that had no job yet - is kept.)
"""

import asyncio
import contextlib
import io
import re

from . import clock
from .hmodel import Model, ModelError
from .lib import Sequence
from .loop import SimLoop, Chooser, SimDeadlock, SimLivelock, SimHorizon
from .oracles import Violation
from .workload import (Ctx, make_task_factory, SimJob, SimScheduler,
                       SimPureScheduler)

CONSTRUCTION = ('job', 'sched', 'seq', 'append', 'seq_requires', 'requires',
                'add', 'update', 'remove')


class HRun:
    __slots__ = ('violations', 'stats', 'log', 'n_ops', 'events')


def _jobspec(name, forever, salt=0, falsy=False):
    # a small seeded duration, so that the final run() has several waves
    # (zlib.crc32, not hash(): strings hash differently in every interpreter)
    import zlib
    dur = (0.0, 0.0, 0.25, 0.5)[zlib.crc32(
        ("%d:%s" % (salt, name)).encode()) % 4]
    return {"id": name, "kind": "job", "cls": "abstract", "critical": False,
            "forever": forever, "script": [["sleep", dur]] if dur else [],
            "outcome": "ret", "cleanup": [], "handler": [], "falsy": falsy}


def _schedspec(name, odd_len=False):
    return {"id": name, "kind": "sched", "members": [], "edges": [],
            "odd_len": odd_len}


class Exec:

    def __init__(self, case):
        self.case = case
        self.loop = SimLoop(chooser=Chooser(), base_time=0.0,
                            tie_shuffle=False, horizon=1000.0)
        self.ctx = Ctx(self.loop, case["salt"])
        self.loop.set_task_factory(make_task_factory(self.ctx))
        self.objs = {}
        self.model = Model()
        self.viol = []
        self.stats = {}
        self.log = []
        self._shared = {}
        self._dups = {}

    # ------------------------------------------------------------ arguments
    def build_arg(self, arg):
        t = arg['t']
        if t == 'none':
            return None
        if t == 'ref':
            return self.objs[arg['name']]
        items = [self.build_arg(i) for i in arg['items']]
        if t == 'list':
            return items
        if t == 'tuple':
            return tuple(items)
        if t == 'iter':
            return (item for item in items)     # can be walked only once
        return set(items)

    def names_in(self, arg, out=None):
        if out is None:
            out = []
        if arg is None:
            return out
        if arg['t'] == 'ref':
            out.append(arg['name'])
        elif arg['t'] != 'none':
            for i in arg['items']:
                self.names_in(i, out)
        return out

    def applicable(self, op):
        """every operand still exists (steps may have been deleted)"""
        kind = op['op']
        names = []
        for key in ('scheduler', 'sched', 'seq', 'job'):
            if op.get(key) is not None:
                names.append(op[key])
        for key in ('required', 'arg', 'item'):
            if op.get(key) is not None:
                names += self.names_in(op[key])
        for item in op.get('items', ()):
            names += self.names_in(item)
        for item in op.get('more_args') or ():
            names += self.names_in(item)
        for key in ('remains', 'starts', 'ends'):
            names += op.get(key, [])
        if any(n not in self.objs for n in names):
            return False
        if kind in ('job', 'sched', 'seq') and op['name'] in self.objs:
            return False
        if kind == 'chain':
            return op['sched'] in self.objs
        return True

    # ------------------------------------------------------------ state
    def lib_state(self):
        req, members, seqs = {}, {}, {}
        for name, obj in self.objs.items():
            kind = self.model.kind[name]
            if kind == 'seq':
                seqs[name] = [j.nid for j in obj.jobs]
                continue
            if kind in ('job', 'sched'):
                req[name] = {j.nid for j in obj.required}
            if kind in ('sched', 'pure'):
                members[name] = sorted(j.nid for j in obj.jobs)
        return req, members, seqs

    def sync(self):
        req, members, seqs = self.lib_state()
        m = self.model
        m.req = {k: set(v) for k, v in req.items()}
        m.members = {k: set(v) for k, v in members.items()}
        self._dups = {k: v for k, v in members.items()
                      if len(v) != len(set(v))}
        m.seq = {k: list(v) for k, v in seqs.items()}

    def diff_state(self):
        """first difference between library and model, as text; or None"""
        req, members, seqs = self.lib_state()
        m = self.model
        for name in sorted(req):
            if req[name] != m.req[name]:
                return ('requirements', name,
                        "required of {} is {} but the documented semantics "
                        "gives {}".format(name, sorted(req[name]),
                                          sorted(m.req[name])))
        for name in sorted(members):
            if members[name] != sorted(m.members[name]):
                return ('members', name,
                        "jobs of {} are {} but should be {} (each once)"
                        .format(name, members[name],
                                sorted(m.members[name])))
        for name in sorted(seqs):
            if seqs[name] != m.seq[name]:
                return ('sequence', name,
                        "jobs of sequence {} are {} but should be {}".format(
                            name, seqs[name], m.seq[name]))
        return None

    def bad(self, prop, clause, site, msg, idx):
        if self._multi_owner():
            # a job in two schedulers: outside the documented precondition
            # (histories are generated without it; shrinking can create it)
            self.stats['unjudged_job_in_two_schedulers'] = 1
            return
        self.viol.append(Violation(prop, clause, site,
                                   "step {}: {}".format(idx, msg)))

    def _multi_owner(self):
        owner = {}
        for name, obj in self.objs.items():
            if self.model.kind.get(name) in ('sched', 'pure'):
                for job in obj.jobs:
                    if owner.setdefault(id(job), name) != name:
                        return True
        return False

    # ------------------------------------------------------------ run
    def run(self, prop):
        ctx = self.ctx
        asyncio.set_event_loop(self.loop)
        clock.activate(self.loop, 0)
        out = io.StringIO()
        try:
            with contextlib.redirect_stdout(out):
                for idx, op in enumerate(self.case["ops"]):
                    if not self.applicable(op):
                        self.log.append((idx, op['op'], 'skipped'))
                        continue
                    self.sync()
                    self.step(prop, idx, op)
        finally:
            clock.deactivate()
            asyncio.set_event_loop(None)
            leftovers = [t for t in ctx.tasks if not t.done()]
            for task in leftovers:
                task.cancel()
            try:
                if leftovers:
                    self.loop.drain(5.0)
                self.loop.close()
            except Exception:                           # pylint: disable=W0703
                pass
        return self

    def step(self, prop, idx, op):
        kind = op['op']
        fn = getattr(self, 'do_' + kind)
        fn(prop, idx, op)

    def _call(self, fn, shallow=False):
        """returns (value, exception); shallow: with the interpreter's
        recursion limit lowered, so that a scan whose stack depth grows with
        the graph shows on a chain of ~50 jobs (which then stands for one of
        ~1000 jobs under the default limit)"""
        if shallow:
            import sys
            old_limit = sys.getrecursionlimit()
            depth, frame = 0, sys._getframe()
            while frame is not None:
                depth, frame = depth + 1, frame.f_back
            sys.setrecursionlimit(depth + 45)
        try:
            return fn(), None
        except Exception as exc:                        # pylint: disable=W0703
            return None, exc
        finally:
            if shallow:
                sys.setrecursionlimit(old_limit)

    def _construct(self, prop, idx, op, lib_call, model_call, clause, site):
        _, exc = self._call(lib_call)
        mexc = None
        try:
            model_call()
        except ModelError as err:
            mexc = err
        self.log.append((idx, op['op'], type(exc).__name__ if exc else 'ok'))
        if prop != 'C19':
            return
        self.stats['construction_steps'] = \
            self.stats.get('construction_steps', 0) + 1
        got = type(exc).__name__ if exc else None
        want = mexc.kind if mexc else None
        if got != want:
            self.bad('C19', clause + ':exception', site,
                     "{} raised {} but the documented semantics gives {}"
                     .format(_show(op), got and repr(exc), want), idx)
            return
        if want == 'KeyError' and _has_set(op.get('arg')):
            # which elements of a set were processed before the KeyError is
            # unspecified: the partial state is not judged
            return
        diff = self.diff_state()
        if diff is not None:
            self.bad('C19', clause + ':' + diff[0], site,
                     "after {}: {}".format(_show(op), diff[2]), idx)

    # ---- construction ops
    def do_job(self, prop, idx, op):
        name = op['name']

        def lib():
            kw = {}
            if op['required'] is not None:
                built = self.build_arg(op['required'])
                if op.get('share_required') and isinstance(built, set):
                    # the very same set object as the previous constructor
                    key = repr(op['required'])
                    built = self._shared.setdefault(key, built)
                kw['required'] = built
            if op['scheduler'] is not None:
                kw['scheduler'] = self.objs[op['scheduler']]
            self.objs[name] = SimJob(self.ctx, _jobspec(name, op['forever'],
                                                         self.case['salt'],
                                                         bool(op.get('falsy'))),
                                     forever=op['forever'], critical=False,
                                     **kw)
        self.model.kind[name] = 'job'       # known to lib_state from now on

        def mod():
            self.model.new_job(name, op['forever'], op['required'],
                               op['scheduler'])
        self._construct(prop, idx, op, lib, mod, 'job-constructor',
                        'required=' + _shape(op['required']))

    def do_sched(self, prop, idx, op):
        name = op['name']

        def lib():
            items = [self.build_arg(i) for i in op['items']]
            if op['pure']:
                self.objs[name] = SimPureScheduler(
                    *items, ctx=self.ctx,
                    spec=_schedspec(name, bool(op.get('odd_len'))))
            else:
                kw = {}
                if op['required'] is not None:
                    kw['required'] = self.build_arg(op['required'])
                if op['scheduler'] is not None:
                    kw['scheduler'] = self.objs[op['scheduler']]
                self.objs[name] = SimScheduler(
                    *items, ctx=self.ctx,
                    spec=_schedspec(name, bool(op.get('odd_len'))),
                    forever=op['forever'], critical=False, **kw)
        self.model.kind[name] = 'pure' if op['pure'] else 'sched'

        def mod():
            self.model.new_sched(name, op['pure'], op['items'], op['forever'],
                                 op['required'], op['scheduler'])
        self._construct(prop, idx, op, lib, mod, 'scheduler-constructor', '-')

    def do_seq(self, prop, idx, op):
        name = op['name']

        def lib():
            kw = {}
            if op['required'] is not None:
                kw['required'] = self.build_arg(op['required'])
            if op['scheduler'] is not None:
                kw['scheduler'] = self.objs[op['scheduler']]
            self.objs[name] = Sequence(
                *[self.build_arg(i) for i in op['items']], **kw)
        self.model.kind[name] = 'seq'
        self.model.seq[name] = []

        def mod():
            self.model.new_seq(name, op['items'], op['required'],
                               op['scheduler'])
        nested = any(i['t'] == 'ref' and self.model.kind[i['name']] == 'seq'
                     for i in op['items'])
        site = ('nested-seq' if nested else 'flat') + \
            ('-empty' if not self.model.flatten_jobs(op['items']) else '')
        try:
            self._construct(prop, idx, op, lib, mod, 'sequence-constructor',
                            site)
        finally:
            if name not in self.objs:
                # construction failed in the library: forget the name
                self.model.kind.pop(name, None)
                self.model.seq.pop(name, None)

    def do_append(self, prop, idx, op):
        seq = op['seq']
        new = self.model.flatten_jobs(op['items'])
        was_empty = not self.model.seq[seq]
        site = ('nothing-to-append' if not new else
                'several-jobs' if len(new) > 1 else 'one-job') + \
            ('-to-empty-sequence' if was_empty else '') + \
            ('-with-pending-required' if was_empty
             and self.model.seq_req.get(seq) else '')

        def lib():
            self.objs[seq].append(*[self.build_arg(i) for i in op['items']])

        def mod():
            self.model.append(seq, op['items'])
        self._construct(prop, idx, op, lib, mod, 'append', site)

    def do_seq_requires(self, prop, idx, op):
        def lib():
            self.objs[op['seq']].requires(self.build_arg(op['arg']))

        def mod():
            self.model.seq_requires(op['seq'], op['arg'])
        self._construct(prop, idx, op, lib, mod, 'sequence-requires',
                        _shape(op['arg']))

    def do_requires(self, prop, idx, op):
        names = self.names_in(op['arg'])
        for extra in op.get('more_args') or []:
            names += self.names_in(extra)
        via_seq = any(self.model.kind[n] == 'seq' for n in names)
        site = ('remove' if op['remove'] else 'add') + \
            ('-via-sequence' if via_seq else '') + \
            ('-self' if op['job'] in names else '')

        more = op.get('more_args') or []

        def lib():
            self.objs[op['job']].requires(
                self.build_arg(op['arg']),
                *[self.build_arg(a) for a in more], remove=op['remove'])

        def mod():
            self.model.requires(op['job'], op['arg'], remove=op['remove'])
            for extra in more:
                self.model.requires(op['job'], extra, remove=op['remove'])
        self._construct(prop, idx, op, lib, mod, 'requires', site)

    def do_add(self, prop, idx, op):
        def lib():
            self.objs[op['sched']].add(self.build_arg(op['item']))

        def mod():
            self.model.add(op['sched'], [op['item']])
        self._construct(prop, idx, op, lib, mod, 'add', '-')

    def do_update(self, prop, idx, op):
        def lib():
            items = [self.build_arg(i) for i in op['items']]
            if op.get('as_iter'):
                items = (item for item in items)
            self.objs[op['sched']].update(items)

        def mod():
            self.model.add(op['sched'], op['items'])
        self._construct(prop, idx, op, lib, mod, 'update', '-')

    def do_remove(self, prop, idx, op):
        def lib():
            self.objs[op['sched']].remove(self.objs[op['job']])

        def mod():
            self.model.remove(op['sched'], op['job'])
        self._construct(prop, idx, op, lib, mod, 'remove', '-')

    def do_chain(self, prop, idx, op):
        names = op['names']
        if any(n in self.objs for n in names):
            return
        sched = self.objs[op['sched']]
        jobs = []
        for name in names:
            self.model.kind[name] = 'job'
            self.model.forever[name] = False
            job = SimJob(self.ctx, _jobspec(name, False, self.case['salt']),
                         forever=False, critical=False)
            self.objs[name] = job
            jobs.append(job)
        Sequence(*jobs, scheduler=sched)
        self.log.append((idx, 'chain', 'ok'))

    # ---- C16
    def do_sanitize(self, prop, idx, op):
        sched = op['sched']
        m = self.model
        before = {k: set(v) for k, v in m.req.items()}
        dangling = self._has_dangling(sched)
        nested = any(m.kind[j] == 'sched' for j in m.members[sched])
        want = m.sanitize(sched)
        if op.get('verbose'):
            got, exc = self._call(lambda: self.objs[sched].sanitize(True))
        else:
            got, exc = self._call(self.objs[sched].sanitize)
        self.log.append((idx, 'sanitize', repr(got)))
        if prop != 'C16':
            return
        self.stats['sanitize_calls'] = self.stats.get('sanitize_calls', 0) + 1
        if dangling:
            self.stats['sanitize_with_dangling'] = \
                self.stats.get('sanitize_with_dangling', 0) + 1
        site = ('tree' if nested else 'flat') + \
            ('-dangling' if dangling else '-clean')
        if exc is not None:
            self.bad('C16', 'sanitize-raises', site, repr(exc), idx)
            return
        req, _, _ = self.lib_state()
        for name in sorted(req):
            if req[name] == m.req[name]:
                continue
            extra = req[name] - m.req[name]
            lost = m.req[name] - req[name]
            if extra:
                self.bad('C16', 'dangling-requirement-left', site,
                         "after {}.sanitize() job {} still requires {} which "
                         "is not in its scheduler".format(
                             sched, name, sorted(extra)), idx)
            else:
                self.bad('C16', 'member-requirement-removed', site,
                         "{}.sanitize() removed {} from the requirements of {}"
                         " (had {})".format(sched, sorted(lost), name,
                                            sorted(before[name])), idx)
            return
        if got is not want:
            self.bad('C16', 'return-value', site,
                     "{}.sanitize() returned {!r} but {}".format(
                         sched, got, "nothing had to be removed" if want
                         else "requirements were removed"), idx)
        if op.get('twice'):
            got2, exc2 = self._call(self.objs[sched].sanitize)
            if exc2 is not None or got2 is not True:
                self.bad('C16', 'second-call-return', site,
                         "second {}.sanitize() returned {!r} {!r}".format(
                             sched, got2, exc2), idx)
            req2, _, _ = self.lib_state()
            if req2 != req:
                self.bad('C16', 'second-call-changes', site,
                         "second sanitize changed requirements", idx)

    def _has_dangling(self, sched):
        m = self.model
        for j in m.members[sched]:
            if not m.req[j] <= m.members[sched]:
                return True
            if m.kind[j] == 'sched' and self._has_dangling(j):
                return True
        return False

    # ---- C17
    def do_query(self, prop, idx, op):
        if prop != 'C17':
            # not judged here, but executed: read-only queries leave state
            # behind (reverse links) that later steps and run() may meet
            obj = self.objs[op['sched']]
            starts = [self.objs[s] for s in op['starts']
                      if s in self.model.members[op['sched']]]

            def calls():
                if starts:
                    list(obj.successors(*starts))
                    obj.successors_downstream(*starts)
                    obj.predecessors_upstream(*starts)
                list(obj.exit_jobs())
                list(obj.entry_jobs())
            self._call(calls)
            return
        sched, m = op['sched'], self.model
        obj = self.objs[sched]
        starts = [s for s in op['starts'] if s in m.members[sched]]
        self.stats['query_steps'] = self.stats.get('query_steps', 0) + 1
        before = self.lib_state()
        try:
            self._do_query(idx, sched, obj, starts, m)
        finally:
            after = self.lib_state()
            if after != before:
                changed = [n for n in before[0] if before[0][n] != after[0][n]]
                self.bad('C17', 'query-changes-the-graph', '-',
                         "read-only queries on {} changed requirements of {} "
                         "or membership".format(sched, changed), idx)

    def _do_query(self, idx, sched, obj, starts, m):
        multi = 'multi-start' if len(starts) > 1 else 'single-start'

        def names(it):
            return sorted(j.nid for j in it)

        def compare(clause, site, fn, want):
            got, exc = self._call(lambda: names(fn()), shallow=True)
            if exc is not None:
                self.bad('C17', clause + ':raises', site, repr(exc), idx)
            elif got != sorted(want):
                self.bad('C17', clause, site,
                         "{}.{}({}) gives {} but the requirements give {}"
                         .format(sched, clause, ",".join(starts), got,
                                 sorted(want)), idx)
        if starts:
            sobjs = [self.objs[s] for s in starts]
            compare('predecessors', multi,
                    lambda: obj.predecessors(*sobjs), m.preds(sched, starts))
            compare('successors', multi,
                    lambda: list(obj.successors(*sobjs)),
                    m.succs(sched, starts))
            compare('predecessors_upstream', multi,
                    lambda: obj.predecessors_upstream(*sobjs),
                    m.upstream(sched, starts))
            compare('successors_downstream', multi,
                    lambda: obj.successors_downstream(*sobjs),
                    m.downstream(sched, starts))
            if len(starts) > 1:
                self.stats['multi_start_queries'] = \
                    self.stats.get('multi_start_queries', 0) + 1
        compare('entry_jobs', '-', lambda: list(obj.entry_jobs()),
                m.entries(sched))
        for flag in (True, False):
            compare('exit_jobs', 'discard_forever=%s' % flag,
                    lambda: list(obj.exit_jobs(discard_forever=flag)),
                    m.exits(sched, flag))
        for flag in (False, True):
            compare('iterate_jobs', 'scan_schedulers=%s' % flag,
                    lambda: list(obj.iterate_jobs(scan_schedulers=flag)),
                    m.tree_jobs(sched, flag))

    # ---- C15
    def do_cycles(self, prop, idx, op):
        if prop != 'C15':
            obj = self.objs[op['sched']]

            def calls():
                obj.check_cycles()
                buf = io.StringIO()
                with contextlib.redirect_stdout(buf):
                    obj.list()
            self._call(calls)
            return
        sched, m = op['sched'], self.model
        if not m.closed(sched):
            self.stats['skipped_not_closed'] = \
                self.stats.get('skipped_not_closed', 0) + 1
            return
        obj = self.objs[sched]
        deep = m.kind[sched] != 'pure'
        want = m.acyclic(sched, deep)
        here = m.acyclic_here(sched)
        nested = any(m.kind[j] == 'sched' for j in m.members[sched])
        site = ('tree' if nested else 'flat') + \
            ('-acyclic' if want else '-cyclic')
        self.stats['cycle_checks'] = self.stats.get('cycle_checks', 0) + 1
        if not want:
            self.stats['cyclic_graphs'] = \
                self.stats.get('cyclic_graphs', 0) + 1
        # a scan whose depth grows with the graph must not be mistaken for a
        # cycle: the interpreter's recursion limit is lowered (a chain of ~50
        # jobs here stands for one of ~1000 jobs under the default limit)
        got, exc = self._call(obj.check_cycles, shallow=True)
        if exc is not None:
            self.bad('C15', 'check_cycles-raises', site, repr(exc), idx)
        elif got is not want:
            self.bad('C15', 'check_cycles', site,
                     "{}.check_cycles() returned {!r} but the graph is {}"
                     .format(sched, got, "acyclic" if want else "cyclic"), idx)
        # topological order of this scheduler's own members
        members = m.members[sched]
        order, raised = [], None
        try:
            for job in obj.topological_order():
                order.append(job.nid)
                if len(order) > len(members) + 1:
                    break
                if op.get('query_inside'):
                    # read-only questions asked about the job at hand
                    obj.predecessors_upstream(job)
                    obj.successors_downstream(job)
                    list(obj.iterate_jobs())
        except Exception as err:                        # pylint: disable=W0703
            raised = err
        if here:
            if raised is not None:
                self.bad('C15', 'topological_order-raises-on-dag', site,
                         repr(raised), idx)
            elif sorted(order) != sorted(members):
                self.bad('C15', 'topological_order-not-a-permutation', site,
                         "{} yields {} for members {}".format(
                             sched, order, sorted(members)), idx)
            else:
                pos = {n: i for i, n in enumerate(order)}
                for j in members:
                    for r in m.req[j]:
                        if pos[r] > pos[j]:
                            self.bad('C15', 'topological_order-invalid', site,
                                     "{} comes before its requirement {} in {}"
                                     .format(j, r, order), idx)
                            return
        elif raised is None:
            self.bad('C15', 'topological_order-silent-on-cycle', site,
                     "{} is cyclic but topological_order() yielded {} and "
                     "did not raise".format(sched, order), idx)
        # list(): ids follow the topological order, each job of the tree once
        if m.acyclic(sched, True):
            buf = io.StringIO()
            with contextlib.redirect_stdout(buf):
                _, exc = self._call(obj.list)
            if exc is not None:
                self.bad('C15', 'list-raises', site, repr(exc), idx)
                return
            ids = {}
            for line in buf.getvalue().splitlines():
                if '--end--' in line:
                    continue
                match = re.match(r'^(\S+) .*<\w+ `(\w+)`>', line)
                if match:
                    if match.group(2) in ids:
                        self.bad('C15', 'list-shows-job-twice', site,
                                 match.group(2), idx)
                        return
                    ids[match.group(2)] = match.group(1)
            expect = set(m.tree_jobs(sched, True)) - {sched}
            if set(ids) != expect:
                self.bad('C15', 'list-misses-jobs', site,
                         "list() shows {} for tree {}".format(
                             sorted(ids), sorted(expect)), idx)
                return
            if len(set(ids.values())) != len(ids):
                self.bad('C15', 'list-ids-not-unique', site, repr(ids), idx)
                return
            for s in [sched] + [j for j in expect if m.kind[j] == 'sched']:
                for j in m.members[s]:
                    for r in m.req[j]:
                        if int(ids[r]) > int(ids[j]):
                            self.bad('C15', 'list-numbering', site,
                                     "{} is numbered {} but its requirement "
                                     "{} is numbered {}".format(
                                         j, ids[j], r, ids[r]), idx)
                            return

    # ---- C18
    def do_bypass(self, prop, idx, op):
        sched, job, m = op['sched'], op['job'], self.model
        pre_ok = m.closed(sched, deep=False) and m.acyclic_here(sched)
        rel_before = m.order_relation(sched) if pre_ok else None
        mexc = None
        try:
            m.bypass(sched, job)
        except ModelError as err:
            mexc = err
        _, exc = self._call(
            lambda: self.objs[sched].bypass_and_remove(self.objs[job]))
        self.log.append((idx, 'bypass', type(exc).__name__ if exc else 'ok'))
        if prop != 'C18':
            return
        self.stats['surgery_steps'] = self.stats.get('surgery_steps', 0) + 1
        site = 'dag' if pre_ok else 'any-graph'
        got = type(exc).__name__ if exc else None
        want = mexc.kind if mexc else None
        if got != want:
            self.bad('C18', 'bypass:exception', site,
                     "bypass_and_remove({}) on {} raised {!r}, expected {}"
                     .format(job, sched, exc, want), idx)
            return
        self._surgery_compare('bypass', site, idx, sched)
        if pre_ok and exc is None:
            self._precedence(sched, rel_before, {job}, 'bypass', idx)

    def _surgery_compare(self, what, site, idx, sched):
        diff = self.diff_state()
        if diff is not None:
            self.bad('C18', what + ':' + diff[0], site, diff[2], idx)
            return False
        return True

    def _precedence(self, sched, rel_before, removed, what, idx):
        """the must-run-before relation of the library's own result, restricted
        to the remaining jobs, is unchanged; still closed and acyclic"""
        self.sync()
        m = self.model
        kept = m.members[sched]
        want = {(a, b) for a, b in rel_before if a in kept and b in kept}
        if not m.closed(sched, deep=False):
            self.bad('C18', what + ':not-closed-afterwards', 'dag',
                     "{} has a requirement to a dropped job".format(sched), idx)
            return
        if not m.acyclic_here(sched):
            self.bad('C18', what + ':cyclic-afterwards', 'dag', sched, idx)
            return
        got = m.order_relation(sched)
        if what == 'bypass':
            if got != want:
                self.bad('C18', 'bypass:precedence', 'dag',
                         "must-run-before changed: lost {} gained {}".format(
                             sorted(want - got), sorted(got - want)), idx)
        else:
            # direct requirements among kept jobs are the original ones: the
            # relation can only lose pairs that went through dropped jobs
            if not got <= want:
                self.bad('C18', what + ':precedence', 'dag',
                         "new orderings appeared: {}".format(
                             sorted(got - want)), idx)

    def do_keep_only(self, prop, idx, op):
        sched, m = op['sched'], self.model
        pre_ok = m.closed(sched, deep=False) and m.acyclic_here(sched)
        rel_before = m.order_relation(sched) if pre_ok else None
        req_before = {k: set(v) for k, v in m.req.items()}
        m.keep_only(sched, op['remains'])
        remains = [self.objs[r] for r in op['remains']]
        if op.get('as_iter'):
            # the parameter is typed Iterable: a one-shot generator is legal
            remains = (job for job in list(remains))
        _, exc = self._call(lambda: self.objs[sched].keep_only(remains))
        self.log.append((idx, 'keep_only', type(exc).__name__ if exc
                         else 'ok'))
        if prop != 'C18':
            return
        self.stats['surgery_steps'] = self.stats.get('surgery_steps', 0) + 1
        site = 'dag' if pre_ok else 'any-graph'
        if exc is not None:
            self.bad('C18', 'keep_only:exception', site, repr(exc), idx)
            return
        if self._surgery_compare('keep_only', site, idx, sched):
            self._kept_requirements(sched, req_before, 'keep_only', idx)
            if pre_ok:
                self._precedence(sched, rel_before, None, 'keep_only', idx)

    def _kept_requirements(self, sched, req_before, what, idx):
        req, members, _ = self.lib_state()
        kept = set(members[sched])
        for j in kept:
            want = req_before[j] & kept
            if req[j] != want:
                self.bad('C18', what + ':requirements-among-kept', 'any-graph',
                         "{} requires {} after the call, original "
                         "requirements among kept jobs are {}".format(
                             j, sorted(req[j]), sorted(want)), idx)
                return

    def do_keep_between(self, prop, idx, op):
        sched, m = op['sched'], self.model
        starts = [s for s in op['starts'] if s in m.members[sched]]
        ends = [e for e in op['ends'] if e in m.members[sched]]
        pre_ok = m.closed(sched, deep=False) and m.acyclic_here(sched)
        rel_before = m.order_relation(sched) if pre_ok else None
        req_before = {k: set(v) for k, v in m.req.items()}
        m.keep_only_between(sched, starts, ends, op['keep_starts'],
                            op['keep_ends'])
        lib_starts = [self.objs[s] for s in starts]
        lib_ends = [self.objs[e] for e in ends]
        if op.get('as_iter'):
            lib_starts = iter(list(lib_starts))
            lib_ends = (job for job in list(lib_ends))
        _, exc = self._call(lambda: self.objs[sched].keep_only_between(
            starts=lib_starts, ends=lib_ends,
            keep_starts=op['keep_starts'], keep_ends=op['keep_ends']),
            shallow=True)
        self.log.append((idx, 'keep_between', type(exc).__name__ if exc
                         else 'ok'))
        if prop != 'C18':
            return
        self.stats['surgery_steps'] = self.stats.get('surgery_steps', 0) + 1
        site = ('dag' if pre_ok else 'any-graph') + \
            '-{}starts-{}ends'.format(min(len(starts), 2), min(len(ends), 2))
        if exc is not None:
            self.bad('C18', 'keep_only_between:exception', site, repr(exc),
                     idx)
            return
        if self._surgery_compare('keep_only_between', site, idx, sched):
            self._kept_requirements(sched, req_before, 'keep_only_between',
                                    idx)
            if pre_ok:
                self._precedence(sched, rel_before, None, 'keep_only_between',
                                 idx)

    # ---- run what was built (C19)
    def do_run(self, prop, idx, op):
        if prop not in ('C19', 'C01', 'C02', 'C03', 'C12'):
            return
        real_bad = self.bad

        def bad(_prop, clause, site, msg, idx):
            # C19 reports everything ("what was built is what is executed");
            # C01 the ordering part, C02 the exactly-once / completeness part
            if prop == 'C01' and clause != 'run:order':
                return
            if prop == 'C02' and clause == 'run:order':
                return
            if prop == 'C03' and clause != 'run:stuck':
                return
            if prop == 'C12' and clause not in (
                    'run:late-start', 'run:job-not-run', 'run:raises',
                    'run:stuck'):
                return
            if prop in ('C01', 'C02', 'C03') and clause == 'run:late-start':
                return
            real_bad(prop, clause, 'after-api-history', msg, idx)
        self.bad = bad
        try:
            self._do_run(prop, idx, op)
        finally:
            self.bad = real_bad

    def _runnable(self, sched):
        m = self.model
        if not m.closed(sched) or not m.acyclic(sched, True):
            return None
        tree = set(m.tree_jobs(sched, True))
        # a job must be in one scheduler only; sequences may have put jobs of
        # this tree elsewhere: skip such histories
        owners = {}
        for s in tree:
            if m.kind[s] in ('sched', 'pure'):
                for j in m.members[s]:
                    if j in owners:
                        return None
                    owners[j] = s
        for s in tree:
            if m.kind[s] in ('sched', 'pure') and m.members[s] and \
                    all(m.forever[j] for j in m.members[s]):
                return None
        return tree

    def do_prerun(self, prop, idx, op):
        """the tree is run once in the middle of the history (not judged
        here): the graph API must answer the same on objects that have been
        through a run"""
        if getattr(self, '_prerun_done', False) or \
                self._runnable(op['sched']) is None or self._multi_owner():
            self.log.append((idx, 'prerun', 'skipped'))
            return
        self._prerun_done = True
        try:
            self.objs[op['sched']].run()
            self.log.append((idx, 'prerun', 'ok'))
        except (KeyboardInterrupt, SystemExit, GeneratorExit):
            raise
        except BaseException as exc:                    # pylint: disable=W0703
            self.log.append((idx, 'prerun', type(exc).__name__))
        self.stats['mid_history_runs'] = \
            self.stats.get('mid_history_runs', 0) + 1

    def _do_run(self, prop, idx, op):
        sched, m = op['sched'], self.model
        tree = self._runnable(sched)
        if tree is None:
            return
        # half of the forever jobs that nobody requires really never end: a
        # lost wake-up elsewhere then shows as a hang, not as an exception
        import zlib
        for s in tree:
            if m.kind[s] not in ('sched', 'pure'):
                continue
            for j in m.members[s]:
                if m.kind[j] == 'job' and m.forever[j] and not any(
                        j in m.req[k] for k in m.members[s]) and zlib.crc32(
                            ("%d/%s" % (self.case['salt'], j)).encode()) % 2:
                    self.objs[j].spec['outcome'] = 'never_fut'
        self.stats['runs_of_built_graph'] = \
            self.stats.get('runs_of_built_graph', 0) + 1
        obj = self.objs[sched]
        ctx = self.ctx
        start = len(ctx.events)
        try:
            value = obj.run()
        except (SimDeadlock, SimLivelock, SimHorizon) as err:
            self.bad('C19', 'run:stuck', '-', repr(err), idx)
            return
        except Exception as err:                        # pylint: disable=W0703
            self.bad('C19', 'run:raises', '-', repr(err), idx)
            return
        if value is not True:
            self.bad('C19', 'run:verdict', '-',
                     "run() of the built graph returned {!r}".format(value),
                     idx)
            return
        exits, enters = {}, {}
        t_enter, t_exit = {}, {}
        for seq, t, kind, nid, payload in ctx.events[start:]:
            if kind in ('enter', 'run_begin'):
                t_enter.setdefault(nid, t)
            elif kind in ('exit', 'over') and payload != 'cancelled':
                t_exit.setdefault(nid, t)
        for seq, _, kind, nid, payload in ctx.events[start:]:
            if kind in ('enter', 'run_begin'):
                if nid in enters:
                    self.bad('C19', 'run:entered-twice', '-',
                             "{} entered twice".format(nid), idx)
                    return
                enters.setdefault(nid, seq)
                if nid not in tree:
                    self.bad('C19', 'run:extra-job-ran', '-',
                             "{} is not (any more) in the scheduler tree of {} "
                             "but was run".format(nid, sched), idx)
                    return
            elif kind in ('exit', 'over') and payload != 'cancelled':
                exits.setdefault(nid, seq)

        def check(s, cut=False):
            """members of a scheduler whose run began; cut: the run may have
            been cancelled (it is, or is inside, a forever scheduler)"""
            cut = cut or m.forever.get(s, False)
            for j in sorted(m.members[s]):
                if j not in enters:
                    if not m.forever[j] and not cut:
                        self.bad('C19', 'run:job-not-run', '-',
                                 "{} in {} never ran".format(j, s), idx)
                        return False
                    continue
                for r in m.req[j]:
                    if r not in exits or exits[r] > enters[j]:
                        self.bad('C19', 'run:order', '-',
                                 "{} ran before its requirement {} finished"
                                 .format(j, r), idx)
                        return False
                # eager start (these schedulers have no window): a job starts
                # in the instant its last requirement finishes
                want = max([t_exit[r] for r in m.req[j]] or [t_enter[s]])
                if t_enter[j] != want:
                    self.bad('C19', 'run:late-start', '-',
                             "{} in {} started at t={} but its last "
                             "requirement finished at t={}".format(
                                 j, s, t_enter[j], want), idx)
                    return False
                if m.kind[j] == 'sched' and not check(j, cut):
                    return False
            return True
        check(sched)


def _has_set(arg):
    if not isinstance(arg, dict) or arg['t'] in ('none', 'ref'):
        return False
    return arg['t'] == 'set' or any(_has_set(i) for i in arg['items'])


def _shape(arg):
    if arg is None:
        return 'absent'
    t = arg['t']
    if t in ('none', 'ref'):
        return t
    inner = {_shape(i) for i in arg['items']}
    deep = any(s.startswith(('list', 'tuple', 'set')) for s in inner)
    return t + ('-nested' if deep else '')


def _show(op):
    def arg(a):
        if a is None:
            return 'None'
        t = a['t']
        if t == 'none':
            return 'None'
        if t == 'ref':
            return a['name']
        body = ", ".join(arg(i) for i in a['items'])
        return {"list": "[%s]", "tuple": "(%s,)", "set": "{%s}",
                "iter": "iter([%s])"}[t] % body
    kind = op['op']
    if kind == 'job':
        return "{}=Job(required={}, scheduler={}{})".format(
            op['name'], arg(op['required']), op['scheduler'],
            ", forever=True" if op['forever'] else "")
    if kind == 'seq':
        return "{}=Sequence({}, required={}, scheduler={})".format(
            op['name'], ", ".join(arg(i) for i in op['items']),
            arg(op['required']), op['scheduler'])
    if kind == 'append':
        return "{}.append({})".format(
            op['seq'], ", ".join(arg(i) for i in op['items']))
    if kind == 'requires':
        return "{}.requires({}{})".format(
            op['job'], arg(op['arg']), ", remove=True" if op['remove'] else "")
    if kind == 'seq_requires':
        return "{}.requires({})".format(op['seq'], arg(op['arg']))
    if kind == 'sched':
        return "{}={}({}{})".format(
            op['name'], 'PureScheduler' if op['pure'] else 'Scheduler',
            ", ".join(arg(i) for i in op['items']),
            "" if op['pure'] else " forever={}, scheduler={}".format(
                op['forever'], op['scheduler']))
    if kind == 'add':
        return "{}.add({})".format(op['sched'], arg(op['item']))
    if kind == 'update':
        return "{}.update([{}])".format(
            op['sched'], ", ".join(arg(i) for i in op['items']))
    if kind == 'remove':
        return "{}.remove({})".format(op['sched'], op['job'])
    return repr(op)


def show_history(case):
    return [_show(op) for op in case['ops']]


def run_history(prop, case):
    ex = Exec(case)
    ex.run(prop)
    res = HRun()
    res.violations = ex.viol
    res.stats = ex.stats
    res.log = ex.log
    res.n_ops = len(case['ops'])
    res.events = [(seq, t, kind, nid, p if isinstance(p, (str, type(None)))
                   else type(p).__name__)
                  for seq, t, kind, nid, p in ex.ctx.events]
    return res
