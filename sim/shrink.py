"""
Minimisation of a failing case: greedy descent over spec/knob/choice
transformations, accepted while the same property and oracle clause still fail.
"""

from . import spec as S


def _remove_member(sched, i):
    """delete member i; its successors inherit its requirements"""
    ins = [a for a, b in sched['edges'] if b == i]
    outs = [b for a, b in sched['edges'] if a == i]
    edges = {(a, b) for a, b in sched['edges'] if a != i and b != i}
    for a in ins:
        for b in outs:
            edges.add((a, b))

    def ren(x):
        return x - 1 if x > i else x
    sched['edges'] = sorted([ren(a), ren(b)] for a, b in edges)
    del sched['members'][i]


def _sched_paths(top):
    """paths (lists of member indexes) to every scheduler"""
    out = [[]]

    def rec(node, path):
        for i, m in enumerate(node['members']):
            if S.is_sched(m):
                out.append(path + [i])
                rec(m, path + [i])
    rec(top, [])
    return out


def _at(top, path):
    node = top
    for i in path:
        node = node['members'][i]
    return node


def candidates(case):
    """yield smaller variants of the case, most aggressive first"""
    spec = case['spec']
    paths = _sched_paths(spec)

    def variant():
        new = {"spec": S.clone(spec), "knobs": dict(case['knobs']),
               "choices": None if case['choices'] is None
               else list(case['choices']), "aux": dict(case['aux'])}
        if 'attrs2' in case:
            new['attrs2'] = {k: dict(v) for k, v in case['attrs2'].items()}
        return new
    # edits between the two runs of a re-run case
    for sid, attrs in (case.get('attrs2') or {}).items():
        for key in ('drop', 'new'):
            items = attrs.get(key) or []
            for k in range(len(items)):
                new = variant()
                new['attrs2'][sid][key] = items[:k] + items[k + 1:]
                yield new
    # delete members (deep schedulers first)
    for path in sorted(paths, key=len, reverse=True):
        sched = _at(spec, path)
        for i in range(len(sched['members'])):
            new = variant()
            _remove_member(_at(new['spec'], path), i)
            yield new
    # hoist: replace a nested scheduler by its members' first job
    for path in paths:
        sched = _at(spec, path)
        for i, m in enumerate(sched['members']):
            if S.is_sched(m) and len(m['members']) >= 1:
                for inner in m['members']:
                    if not S.is_sched(inner):
                        new = variant()
                        tgt = _at(new['spec'], path)
                        repl = S.clone(inner)
                        repl['forever'] = m['forever']
                        tgt['members'][i] = repl
                        yield new
                        break
    # delete edges
    for path in paths:
        sched = _at(spec, path)
        for k in range(len(sched['edges'])):
            new = variant()
            del _at(new['spec'], path)['edges'][k]
            yield new
    # scheduler flags
    for path in paths:
        sched = _at(spec, path)
        for key, neutral in (('window', None), ('timeout', None),
                             ('verbose', False), ('forever', False),
                             ('critical', False), ('sd_timeout', 1.0),
                             ('build', 'ctor'), ('late_attrs', None),
                             ('watch', None), ('label', 'x'),
                             ('ctor_attrs', None), ('crit_method', None),
                             ('req_shape', None), ('crit_late', None),
                             ('odd_len', None)):
            if sched.get(key) != neutral:
                new = variant()
                _at(new['spec'], path)[key] = neutral
                yield new
        if sched.get('window') and sched['window'] > 1:
            new = variant()
            _at(new['spec'], path)['window'] = sched['window'] - 1
            yield new
    # job attributes
    for path in paths:
        sched = _at(spec, path)
        for i, m in enumerate(sched['members']):
            if S.is_sched(m):
                continue
            for key, neutral in (('cleanup', []), ('handler', []),
                                 ('cleanup_outcome', None),
                                 ('exc_noargs', None), ('exc_base', None),
                                 ('exc_type', None), ('label', 'x'),
                                 ('crit_method', None), ('falsy', None),
                                 ('ret_awaitable', None),
                                 ('req_shape', None),
                                 ('handler_absorbs', None),
                                 ('handler_self_cancel', None),
                                 ('forever', False), ('critical', False),
                                 ('outcome', 'ret'), ('cls', 'abstract')):
                if m.get(key) != neutral:
                    new = variant()
                    _at(new['spec'], path)['members'][i][key] = neutral
                    yield new
            script = m['script']
            for k in range(len(script)):
                new = variant()
                del _at(new['spec'], path)['members'][i]['script'][k]
                yield new
            for k, (op, arg) in enumerate(script):
                smaller = []
                if op == 'sleep':
                    smaller = [v for v in (0.25, 0.5, 1.0) if v < arg]
                elif op == 'yield' and arg > 1:
                    smaller = [1]
                for val in smaller:
                    new = variant()
                    _at(new['spec'], path)['members'][i]['script'][k] = \
                        [op, val]
                    yield new
    # knobs
    for key, neutral in (('stall_den', 0), ('tie_shuffle', False),
                         ('base', 0.0), ('wall_offset', 0), ('entry', 'run'),
                         ('noise', 0), ('sync_shutdown', False),
                         ('wall_jump', None)):
        if case['knobs'].get(key) != neutral:
            new = variant()
            new['knobs'][key] = neutral
            yield new
    # choices
    if case['choices']:
        ch = case['choices']
        for cut in (0, len(ch) // 2, len(ch) - 1):
            new = variant()
            new['choices'] = ch[:cut]
            yield new
        for k, val in enumerate(ch):
            if val:
                new = variant()
                new['choices'][k] = 0
                yield new


def valid(prop, case):
    top = case['spec']
    if not top['members']:
        return False
    if not S.admissible(top):
        return False
    if prop != 'C03':
        for node, _, _ in S.walk(top):
            if S.is_sched(node) and node['members'] and \
                    all(m['forever'] for m in node['members']):
                return False
    # a self-cancelling job must not be required by anybody
    for node, _, _ in S.walk(top):
        if S.is_sched(node):
            required = {a for a, _ in node['edges']}
            for i, m in enumerate(node['members']):
                if not S.is_sched(m) and m['outcome'] == 'self_cancel' \
                        and i in required:
                    return False
    # aux references must still exist
    nodes, _ = S.index(top)
    for key in ('switch', 'target'):
        if key in case['aux'] and case['aux'][key] not in nodes:
            return False
    return True


def minimise(prop, clause, case, eng, budget=400):
    """
    eng: engine module (cases / hcases). Returns (smallest failing case, number
    of evaluations spent). The case given must fail with `clause`.
    """
    spent = 0

    def fails(cand):
        nonlocal spent
        spent += 1
        try:
            res = eng.evaluate_case(prop, cand)
        except Exception:                               # pylint: disable=W0703
            return None
        for v in res.violations:
            if v.clause == clause:
                return res
        return None
    res = fails(case)
    if res is not None:
        pinned = eng.pin(case, res)
        if pinned is not None and fails(pinned) is not None:
            case = pinned
    progress = True
    while progress and spent < budget:
        progress = False
        for cand in eng.candidates(case):
            if spent >= budget:
                break
            if not eng.valid(prop, cand):
                continue
            if fails(cand) is not None:
                case = cand
                progress = True
                break
    return case, spent
